; ---------------------------------------------------------------------------
; Abstract view of a Tengo runtime value (built by the engine's view(x)).
; Source of the tables below: docs/operators.md, docs/runtime-types.md and
; the statement of C10 — not the code.
; ---------------------------------------------------------------------------
(declare-datatypes ((V 0)) ((
  (VUndef)
  (VBool (vbool Bool))
  (VInt (vint (_ BitVec 64)))
  (VFloat (vfloat (_ FloatingPoint 11 53)))
  (VChar (vchar (_ BitVec 32)))
  (VStr (vstr Str))
  (VTime (vtime TimeT))
  (VBytes (vbytes Slice))
  (VArr (varr Slice) (varrimm Bool))
  (VMap (vmap Loc) (vmaplen (_ BitVec 64)) (vmapimm Bool))
  (VErr (verr Iface))
  (VOther (vtag Int) (vloc Loc)))))

; abstract time instants: a strict total order up to t_equal (assumption about package time)
; (time.Time values are mapped to abstract instants; Before/After/Equal compare instants)
(declare-fun t_inst (TimeT) Int)
(define-fun t_before ((a TimeT) (b TimeT)) Bool (< (t_inst a) (t_inst b)))
(define-fun t_equal ((a TimeT) (b TimeT)) Bool (= (t_inst a) (t_inst b)))
(declare-fun t_iszero (TimeT) Bool)

(define-fun i2f ((i (_ BitVec 64))) (_ FloatingPoint 11 53) ((_ to_fp 11 53) RNE i))
(define-fun c2i ((c (_ BitVec 32))) (_ BitVec 64) ((_ sign_extend 32) c))

; ordered pairs (C10 / appendix A.4)
(define-fun spec_ordered ((a V) (b V)) Bool
  (or (and ((_ is VInt) a) ((_ is VInt) b)) (and ((_ is VInt) a) ((_ is VFloat) b))
      (and ((_ is VFloat) a) ((_ is VInt) b)) (and ((_ is VFloat) a) ((_ is VFloat) b))
      (and ((_ is VChar) a) ((_ is VChar) b)) (and ((_ is VInt) a) ((_ is VChar) b))
      (and ((_ is VChar) a) ((_ is VInt) b)) (and ((_ is VStr) a) ((_ is VStr) b))
      (and ((_ is VTime) a) ((_ is VTime) b))))

; strictly less (int taken as float against a float; int/char by code point)
(define-fun spec_lt ((a V) (b V)) Bool
  (ite (and ((_ is VInt) a) ((_ is VInt) b)) (bvslt (vint a) (vint b))
  (ite (and ((_ is VInt) a) ((_ is VFloat) b)) (fp.lt (i2f (vint a)) (vfloat b))
  (ite (and ((_ is VFloat) a) ((_ is VInt) b)) (fp.lt (vfloat a) (i2f (vint b)))
  (ite (and ((_ is VFloat) a) ((_ is VFloat) b)) (fp.lt (vfloat a) (vfloat b))
  (ite (and ((_ is VChar) a) ((_ is VChar) b)) (bvslt (vchar a) (vchar b))
  (ite (and ((_ is VInt) a) ((_ is VChar) b)) (bvslt (vint a) (c2i (vchar b)))
  (ite (and ((_ is VChar) a) ((_ is VInt) b)) (bvslt (c2i (vchar a)) (vint b))
  (ite (and ((_ is VStr) a) ((_ is VStr) b)) (s_lt (vstr a) (vstr b))
  (ite (and ((_ is VTime) a) ((_ is VTime) b)) (t_before (vtime a) (vtime b))
  false))))))))))

; "equal as ordering keys": what <= adds to <
(define-fun spec_keq ((a V) (b V)) Bool
  (ite (and ((_ is VInt) a) ((_ is VInt) b)) (= (vint a) (vint b))
  (ite (and ((_ is VInt) a) ((_ is VFloat) b)) (fp.eq (i2f (vint a)) (vfloat b))
  (ite (and ((_ is VFloat) a) ((_ is VInt) b)) (fp.eq (vfloat a) (i2f (vint b)))
  (ite (and ((_ is VFloat) a) ((_ is VFloat) b)) (fp.eq (vfloat a) (vfloat b))
  (ite (and ((_ is VChar) a) ((_ is VChar) b)) (= (vchar a) (vchar b))
  (ite (and ((_ is VInt) a) ((_ is VChar) b)) (= (vint a) (c2i (vchar b)))
  (ite (and ((_ is VChar) a) ((_ is VInt) b)) (= (c2i (vchar a)) (vint b))
  (ite (and ((_ is VStr) a) ((_ is VStr) b)) (= (vstr a) (vstr b))
  (ite (and ((_ is VTime) a) ((_ is VTime) b)) (t_equal (vtime a) (vtime b))
  false))))))))))

(define-fun spec_le ((a V) (b V)) Bool (or (spec_lt a b) (spec_keq a b)))

(define-fun spec_iscmp ((op (_ BitVec 64))) Bool
  (or (= op token_Less) (= op token_Greater) (= op token_LessEq) (= op token_GreaterEq)))

; the four comparisons are derived from lt / le exactly as the statement says:
;   a > b  :=  b < a        a >= b  :=  b <= a
(define-fun spec_cmp ((op (_ BitVec 64)) (a V) (b V)) Bool
  (ite (= op token_Less) (spec_lt a b)
  (ite (= op token_Greater) (spec_lt b a)
  (ite (= op token_LessEq) (spec_le a b)
  (spec_le b a)))))

; equality of scalar values (docs/operators.md "Equality"; int/float compare numerically,
; int/char are never equal)
(define-fun spec_scalar ((a V)) Bool
  (or ((_ is VInt) a) ((_ is VFloat) a) ((_ is VChar) a) ((_ is VStr) a) ((_ is VTime) a)))
(define-fun spec_eqv ((a V) (b V)) Bool
  (ite (and ((_ is VInt) a) ((_ is VInt) b)) (= (vint a) (vint b))
  (ite (and ((_ is VInt) a) ((_ is VFloat) b)) (fp.eq (i2f (vint a)) (vfloat b))
  (ite (and ((_ is VFloat) a) ((_ is VInt) b)) (fp.eq (vfloat a) (i2f (vint b)))
  (ite (and ((_ is VFloat) a) ((_ is VFloat) b)) (fp.eq (vfloat a) (vfloat b))
  (ite (and ((_ is VChar) a) ((_ is VChar) b)) (= (vchar a) (vchar b))
  (ite (and ((_ is VStr) a) ((_ is VStr) b)) (= (vstr a) (vstr b))
  (ite (and ((_ is VTime) a) ((_ is VTime) b)) (t_equal (vtime a) (vtime b))
  false))))))))

; truthiness table (docs/runtime-types.md "Object.IsFalsy()")
(define-fun spec_falsy_known ((a V)) Bool (not ((_ is VOther) a)))
(define-fun spec_falsy ((a V)) Bool
  (ite ((_ is VUndef) a) true
  (ite ((_ is VBool) a) (not (vbool a))
  (ite ((_ is VInt) a) (= (vint a) #x0000000000000000)
  (ite ((_ is VFloat) a) (fp.isNaN (vfloat a))
  (ite ((_ is VChar) a) (= (vchar a) #x00000000)
  (ite ((_ is VStr) a) (= (s_len (vstr a)) #x0000000000000000)
  (ite ((_ is VTime) a) (t_iszero (vtime a))
  (ite ((_ is VBytes) a) (= (slen (vbytes a)) #x0000000000000000)
  (ite ((_ is VArr) a) (= (slen (varr a)) #x0000000000000000)
  (ite ((_ is VMap) a) (= (vmaplen a) #x0000000000000000)
  (ite ((_ is VErr) a) true
  false))))))))))))

; ---------------------------------------------------------------------------
; arithmetic (docs/operators.md; Go int64 / rune / IEEE semantics)
; spec_arith_ok: the operator is defined on the pair; spec_arith: result view
; ---------------------------------------------------------------------------
(define-fun spec_isintop ((op (_ BitVec 64))) Bool
  (or (= op token_Add) (= op token_Sub) (= op token_Mul) (= op token_Quo) (= op token_Rem)
      (= op token_And) (= op token_Or) (= op token_Xor) (= op token_AndNot) (= op token_Shl) (= op token_Shr)))
(define-fun spec_isfloatop ((op (_ BitVec 64))) Bool
  (or (= op token_Add) (= op token_Sub) (= op token_Mul) (= op token_Quo)))
(define-fun spec_isaddsub ((op (_ BitVec 64))) Bool (or (= op token_Add) (= op token_Sub)))

(define-fun spec_arith_ok ((op (_ BitVec 64)) (a V) (b V)) Bool
  (or (and ((_ is VInt) a) ((_ is VInt) b) (spec_isintop op))
      (and ((_ is VInt) a) ((_ is VFloat) b) (spec_isfloatop op))
      (and ((_ is VFloat) a) ((_ is VInt) b) (spec_isfloatop op))
      (and ((_ is VFloat) a) ((_ is VFloat) b) (spec_isfloatop op))
      (and ((_ is VChar) a) ((_ is VChar) b) (spec_isaddsub op))
      (and ((_ is VChar) a) ((_ is VInt) b) (spec_isaddsub op))
      (and ((_ is VInt) a) ((_ is VChar) b) (spec_isaddsub op))))

(define-fun spec_intop ((op (_ BitVec 64)) (x (_ BitVec 64)) (y (_ BitVec 64))) (_ BitVec 64)
  (ite (= op token_Add) (bvadd x y)
  (ite (= op token_Sub) (bvsub x y)
  (ite (= op token_Mul) (bvmul x y)
  (ite (= op token_Quo) (bvsdiv x y)
  (ite (= op token_Rem) (bvsrem x y)
  (ite (= op token_And) (bvand x y)
  (ite (= op token_Or) (bvor x y)
  (ite (= op token_Xor) (bvxor x y)
  (ite (= op token_AndNot) (bvand x (bvnot y))
  (ite (= op token_Shl) (bvshl x y)
  (bvashr x y))))))))))))
(define-fun spec_floatop ((op (_ BitVec 64)) (x (_ FloatingPoint 11 53)) (y (_ FloatingPoint 11 53))) (_ FloatingPoint 11 53)
  (ite (= op token_Add) (fp.add RNE x y)
  (ite (= op token_Sub) (fp.sub RNE x y)
  (ite (= op token_Mul) (fp.mul RNE x y)
  (fp.div RNE x y)))))
(define-fun spec_charop ((op (_ BitVec 64)) (x (_ BitVec 32)) (y (_ BitVec 32))) (_ BitVec 32)
  (ite (= op token_Add) (bvadd x y) (bvsub x y)))
(define-fun i2c ((i (_ BitVec 64))) (_ BitVec 32) ((_ extract 31 0) i))

(define-fun spec_arith ((op (_ BitVec 64)) (a V) (b V)) V
  (ite (and ((_ is VInt) a) ((_ is VInt) b)) (VInt (spec_intop op (vint a) (vint b)))
  (ite (and ((_ is VInt) a) ((_ is VFloat) b)) (VFloat (spec_floatop op (i2f (vint a)) (vfloat b)))
  (ite (and ((_ is VFloat) a) ((_ is VInt) b)) (VFloat (spec_floatop op (vfloat a) (i2f (vint b))))
  (ite (and ((_ is VFloat) a) ((_ is VFloat) b)) (VFloat (spec_floatop op (vfloat a) (vfloat b)))
  (ite (and ((_ is VChar) a) ((_ is VChar) b)) (VChar (spec_charop op (vchar a) (vchar b)))
  (ite (and ((_ is VChar) a) ((_ is VInt) b)) (VChar (spec_charop op (vchar a) (i2c (vint b))))
  (VChar (spec_charop op (i2c (vint a)) (vchar b))))))))))

; two views denote the same value (floats up to fp.eq or both NaN: the docs do not specify signed zeros)
(define-fun spec_sameval ((a V) (b V)) Bool
  (ite (and ((_ is VFloat) a) ((_ is VFloat) b))
       (or (fp.eq (vfloat a) (vfloat b)) (and (fp.isNaN (vfloat a)) (fp.isNaN (vfloat b))))
       (= a b)))

(define-fun spec_known ((a V)) Bool (not ((_ is VOther) a)))
(define-fun spec_numeric ((a V)) Bool (or ((_ is VInt) a) ((_ is VFloat) a) ((_ is VChar) a)))
(define-fun spec_tbefore ((a TimeT) (b TimeT)) Bool (t_before a b))
(define-fun spec_tequal ((a TimeT) (b TimeT)) Bool (t_equal a b))
(define-fun spec_tiszero ((a TimeT)) Bool (t_iszero a))
(define-fun spec_isnan ((f (_ FloatingPoint 11 53))) Bool (fp.isNaN f))
(define-fun spec_isvint ((a V)) Bool ((_ is VInt) a))
(define-fun spec_isvfloat ((a V)) Bool ((_ is VFloat) a))
(define-fun spec_isvstr ((a V)) Bool ((_ is VStr) a))
(define-fun spec_isvtime ((a V)) Bool ((_ is VTime) a))
(define-fun spec_vint ((a V)) (_ BitVec 64) (vint a))
(define-fun spec_vstr ((a V)) Str (vstr a))
(define-fun spec_vtime ((a V)) TimeT (vtime a))

; kinds whose representation holds mutable state reachable by scripts (C10 copy, C09)
(define-fun spec_mutablekind ((a V)) Bool
  (or ((_ is VArr) a) ((_ is VMap) a) ((_ is VBytes) a) ((_ is VErr) a)))
(define-fun spec_isarr ((a V)) Bool ((_ is VArr) a))
(define-fun spec_ismap ((a V)) Bool ((_ is VMap) a))

; rune decoding of strings (uninterpreted: the engine gives []rune(s) these lengths / elements)
(define-fun spec_nrunes ((s Str)) (_ BitVec 64) (s_nrunes s))
(define-fun spec_runeat ((s Str) (i (_ BitVec 64))) (_ BitVec 32) (s_runeat s i))
