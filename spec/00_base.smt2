; base spec functions
(define-fun spec_id64 ((a (_ BitVec 64))) (_ BitVec 64) a)
