; int/float pairs (the int taken as a float): exactly one of <, ==, >
(declare-const a V) (declare-const b V)
(assert (and ((_ is VInt) a) ((_ is VFloat) b) (not (fp.isNaN (vfloat b)))))
(define-fun lt () Bool (spec_cmp token_Less a b))
(define-fun gt () Bool (spec_cmp token_Greater a b))
(define-fun e () Bool (spec_eqv a b))
(assert (not (and (or lt e gt) (not (and lt e)) (not (and lt gt)) (not (and e gt)))))
(check-sat)
