; int/float pairs: <= means < or ==, >= means > or ==
(declare-const a V) (declare-const b V)
(assert (and ((_ is VInt) a) ((_ is VFloat) b) (not (fp.isNaN (vfloat b)))))
(define-fun lt () Bool (spec_cmp token_Less a b))
(define-fun gt () Bool (spec_cmp token_Greater a b))
(define-fun e () Bool (spec_eqv a b))
(assert (not (and (= (spec_cmp token_LessEq a b) (or lt e)) (= (spec_cmp token_GreaterEq a b) (or gt e)))))
(check-sat)
