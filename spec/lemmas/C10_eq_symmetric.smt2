; == is symmetric on scalar values (int/float compared numerically)
(declare-const a V) (declare-const b V)
(assert (not (= (spec_eqv a b) (spec_eqv b a))))
(check-sat)
