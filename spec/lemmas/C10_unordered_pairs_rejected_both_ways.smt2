; ordered-ness is symmetric: a pair is rejected in both operand orders or in none
(declare-const a V) (declare-const b V)
(assert (not (= (spec_ordered a b) (spec_ordered b a))))
(check-sat)
