; int/float pairs (the int taken as a float): exactly one of <, ==, >
(declare-const a V) (declare-const b V)
(assert (and ((_ is VFloat) a) ((_ is VInt) b) (not (fp.isNaN (vfloat a)))))
(define-fun lt () Bool (spec_cmp token_Less a b))
(define-fun gt () Bool (spec_cmp token_Greater a b))
(define-fun e () Bool (spec_eqv a b))
(assert (not (and (or lt e gt) (not (and lt e)) (not (and lt gt)) (not (and e gt)))))
(check-sat)
