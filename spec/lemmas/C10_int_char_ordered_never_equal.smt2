; int/char pairs are ordered by code point without being equal
(declare-const a V) (declare-const b V)
(assert (or (and ((_ is VInt) a) ((_ is VChar) b)) (and ((_ is VChar) a) ((_ is VInt) b))))
(define-fun ia () (_ BitVec 64) (ite ((_ is VInt) a) (vint a) (c2i (vchar a))))
(define-fun ib () (_ BitVec 64) (ite ((_ is VInt) b) (vint b) (c2i (vchar b))))
(assert (not (and (spec_ordered a b) (not (spec_eqv a b))
                  (= (spec_cmp token_Less a b) (bvslt ia ib)) (= (spec_cmp token_Greater a b) (bvsgt ia ib))
                  (= (spec_cmp token_LessEq a b) (bvsle ia ib)) (= (spec_cmp token_GreaterEq a b) (bvsge ia ib)))))
(check-sat)
