; exactly five binary precedence levels 1..5; every other token has precedence 0
(declare-const t (_ BitVec 64))
(assert (not (and (bvule (spec_prec t) #x0000000000000005)
                  (=> (= (spec_prec t) #x0000000000000000)
                      (not (or (= t token_Mul) (= t token_Add) (= t token_Equal) (= t token_LAnd) (= t token_LOr)))))))
(check-sat)
