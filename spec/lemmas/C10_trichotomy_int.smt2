; same ordered type int: exactly one of <, ==, > ; <= means < or ==
(declare-const a V) (declare-const b V)
(assert ((_ is VInt) a)) (assert ((_ is VInt) b))
(define-fun lt () Bool (spec_cmp token_Less a b))
(define-fun gt () Bool (spec_cmp token_Greater a b))
(define-fun e () Bool (spec_eqv a b))
(assert (not (and (or lt e gt) (not (and lt e)) (not (and lt gt)) (not (and e gt))
                  (= (spec_cmp token_LessEq a b) (or lt e)) (= (spec_cmp token_GreaterEq a b) (or gt e)))))
(check-sat)
