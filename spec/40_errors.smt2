; ---- error wrapping (C14)
; spec_chain e     : the set of errors reachable from e by repeated Unwrap (e itself excluded)
; spec_unwraps a b : errors.Is(a, b) for comparable errors: b is a itself or is in a's chain
; spec_wrapped r i : r wraps i (fmt.Errorf with %w applied to i): r's chain is i plus i's chain
; spec_fmt_wraps0 f: the first verb of format string f is %w (so fmt.Errorf(f, a...) wraps a[0]);
;                    asserted by the engine for every string literal from the literal's text
(declare-fun spec_chain (Iface) (Array Iface Bool))
(define-fun spec_unwraps ((a Iface) (b Iface)) Bool (or (= a b) (select (spec_chain a) b)))
(define-fun spec_wrapped ((r Iface) (i Iface)) Bool (= (spec_chain r) (store (spec_chain i) i true)))
(declare-fun spec_fmt_wraps0 (Str) Bool)
