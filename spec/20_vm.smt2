; ---------------------------------------------------------------------------
; VM step specification (DESIGN.md appendix A): opcode classes, operand-stack
; effect, tracked allocations. Opcode constants parser_Op* are read from the Go
; package on every run; operand widths come from the table parser.OpcodeOperands.
; ---------------------------------------------------------------------------
(define-fun op64 ((op (_ BitVec 8))) (_ BitVec 64) ((_ zero_extend 56) op))

; A.3: opcodes that perform exactly one tracked allocation whenever they complete
(define-fun spec_alloc_always ((op (_ BitVec 8))) Bool
  (or (= op parser_OpBinaryOp) (= op parser_OpBComplement) (= op parser_OpMinus) (= op parser_OpArray)
      (= op parser_OpMap) (= op parser_OpError) (= op parser_OpSliceIndex) (= op parser_OpClosure)
      (= op parser_OpIteratorInit)))
; opcodes with a conditional tracked allocation: IMMUT (array/map operand), CALL (native callee)
(define-fun spec_alloc_cond ((op (_ BitVec 8))) Bool (or (= op parser_OpImmutable) (= op parser_OpCall)))
(define-fun spec_alloc_never ((op (_ BitVec 8))) Bool (and (not (spec_alloc_always op)) (not (spec_alloc_cond op))))

; control transfer
(define-fun spec_isjump ((op (_ BitVec 8))) Bool
  (or (= op parser_OpJump) (= op parser_OpJumpFalsy) (= op parser_OpAndJump) (= op parser_OpOrJump)))
(define-fun spec_straight ((op (_ BitVec 8))) Bool
  (and (bvule op parser_OpSuspend) (not (spec_isjump op)) (not (= op parser_OpCall)) (not (= op parser_OpReturn)) (not (= op parser_OpSuspend))))
(define-fun spec_validop ((op (_ BitVec 8))) Bool (bvule op parser_OpSuspend))
(define-fun spec_sumw ((op (_ BitVec 8))) (_ BitVec 64) (spec_parser_OpcodeOperands_sum (op64 op)))

; A.2: operand-stack effect of opcodes whose effect does not depend on operands
(define-fun spec_delta_fixed ((op (_ BitVec 8))) Bool
  (or (= op parser_OpConstant) (= op parser_OpNull) (= op parser_OpTrue) (= op parser_OpFalse) (= op parser_OpGetGlobal)
      (= op parser_OpGetLocal) (= op parser_OpGetFree) (= op parser_OpGetFreePtr) (= op parser_OpGetLocalPtr) (= op parser_OpGetBuiltin)
      (= op parser_OpPop) (= op parser_OpSetGlobal) (= op parser_OpSetLocal) (= op parser_OpDefineLocal) (= op parser_OpSetFree)
      (= op parser_OpJumpFalsy) (= op parser_OpEqual) (= op parser_OpNotEqual) (= op parser_OpBinaryOp) (= op parser_OpIndex)
      (= op parser_OpLNot) (= op parser_OpMinus) (= op parser_OpBComplement) (= op parser_OpError) (= op parser_OpImmutable)
      (= op parser_OpIteratorInit) (= op parser_OpIteratorNext) (= op parser_OpIteratorKey) (= op parser_OpIteratorValue) (= op parser_OpJump)
      (= op parser_OpSliceIndex)))
(define-fun spec_delta ((op (_ BitVec 8))) (_ BitVec 64)
  (ite (or (= op parser_OpConstant) (= op parser_OpNull) (= op parser_OpTrue) (= op parser_OpFalse) (= op parser_OpGetGlobal)
           (= op parser_OpGetLocal) (= op parser_OpGetFree) (= op parser_OpGetFreePtr) (= op parser_OpGetLocalPtr) (= op parser_OpGetBuiltin))
       #x0000000000000001
  (ite (or (= op parser_OpPop) (= op parser_OpSetGlobal) (= op parser_OpSetLocal) (= op parser_OpDefineLocal) (= op parser_OpSetFree)
           (= op parser_OpJumpFalsy) (= op parser_OpEqual) (= op parser_OpNotEqual) (= op parser_OpBinaryOp) (= op parser_OpIndex))
       #xffffffffffffffff
  (ite (= op parser_OpSliceIndex) #xfffffffffffffffe
       #x0000000000000000))))
