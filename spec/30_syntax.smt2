; ---------------------------------------------------------------------------
; C20: operator precedence table of docs/tutorial.md ("Operator Precedences"):
; five binary levels, everything else has the lowest precedence (0).
; ---------------------------------------------------------------------------
(define-fun spec_prec ((t (_ BitVec 64))) (_ BitVec 64)
  (ite (or (= t token_Mul) (= t token_Quo) (= t token_Rem) (= t token_Shl) (= t token_Shr) (= t token_And) (= t token_AndNot)) #x0000000000000005
  (ite (or (= t token_Add) (= t token_Sub) (= t token_Or) (= t token_Xor)) #x0000000000000004
  (ite (or (= t token_Equal) (= t token_NotEqual) (= t token_Less) (= t token_LessEq) (= t token_Greater) (= t token_GreaterEq)) #x0000000000000003
  (ite (= t token_LAnd) #x0000000000000002
  (ite (= t token_LOr) #x0000000000000001
  #x0000000000000000))))))
