package main

import (
	"fmt"
	"go/ast"
	"go/constant"
	"go/types"
	"os"
	"path/filepath"
	"sort"
	"strings"
)

// specSig is the signature of a spec function defined in /verif/spec/*.smt2.
type specSig struct {
	name   string
	params []string // sorts
	result string
}

// loadSpecs reads every spec/*.smt2 file (sorted), concatenates the text and
// records the signatures of define-fun / declare-fun forms.
func (e *Engine) loadSpecs(dir string) error {
	e.specDir = dir
	files, _ := filepath.Glob(filepath.Join(dir, "*.smt2"))
	sort.Strings(files)
	e.specSigs = map[string]*specSig{}
	var all strings.Builder
	all.WriteString(e.constPrelude())
	all.WriteString("; ---- constant tables read from source\n" + e.tableText)
	if forms, err := readSexprs(e.tableText); err == nil {
		e.recordSigs(forms)
	}
	for _, f := range files {
		b, err := os.ReadFile(f)
		if err != nil {
			return err
		}
		all.WriteString("; ---- " + filepath.Base(f) + "\n")
		all.Write(b)
		all.WriteString("\n")
		forms, err := readSexprs(string(b))
		if err != nil {
			return fmt.Errorf("%s: %v", f, err)
		}
		e.recordSigs(forms)
	}
	e.specText = all.String()
	return nil
}

func (e *Engine) recordSigs(forms []interface{}) {
	{
		for _, fm := range forms {
			l, ok := fm.([]interface{})
			if !ok || len(l) < 4 {
				continue
			}
			head, _ := l[0].(string)
			if head != "define-fun" && head != "declare-fun" && head != "define-fun-rec" {
				continue
			}
			name, _ := l[1].(string)
			sig := &specSig{name: name}
			ps, _ := l[2].([]interface{})
			for _, p := range ps {
				if head == "declare-fun" {
					sig.params = append(sig.params, sexprString(p))
				} else if pl, ok := p.([]interface{}); ok && len(pl) == 2 {
					sig.params = append(sig.params, sexprString(pl[1]))
				}
			}
			sig.result = sexprString(l[3])
			e.specSigs[name] = sig
		}
	}
}

func readSexprs(s string) ([]interface{}, error) {
	var toks []string
	i := 0
	for i < len(s) {
		c := s[i]
		switch {
		case c == ';':
			for i < len(s) && s[i] != '\n' {
				i++
			}
		case c == '(' || c == ')':
			toks = append(toks, string(c))
			i++
		case c == ' ' || c == '\n' || c == '\t' || c == '\r':
			i++
		case c == '"':
			j := i + 1
			for j < len(s) && s[j] != '"' {
				j++
			}
			toks = append(toks, s[i:j+1])
			i = j + 1
		case c == '|':
			j := i + 1
			for j < len(s) && s[j] != '|' {
				j++
			}
			toks = append(toks, s[i:j+1])
			i = j + 1
		default:
			j := i
			for j < len(s) && !strings.ContainsRune("() \n\t\r;", rune(s[j])) {
				j++
			}
			toks = append(toks, s[i:j])
			i = j
		}
	}
	pos := 0
	var parse func() (interface{}, error)
	parse = func() (interface{}, error) {
		if pos >= len(toks) {
			return nil, fmt.Errorf("unexpected end of input")
		}
		t := toks[pos]
		pos++
		if t == "(" {
			var l []interface{}
			for pos < len(toks) && toks[pos] != ")" {
				x, err := parse()
				if err != nil {
					return nil, err
				}
				l = append(l, x)
			}
			if pos >= len(toks) {
				return nil, fmt.Errorf("missing )")
			}
			pos++
			if l == nil {
				l = []interface{}{}
			}
			return l, nil
		}
		if t == ")" {
			return nil, fmt.Errorf("unexpected )")
		}
		return t, nil
	}
	var out []interface{}
	for pos < len(toks) {
		x, err := parse()
		if err != nil {
			return nil, err
		}
		out = append(out, x)
	}
	return out, nil
}

func sexprString(x interface{}) string {
	switch x := x.(type) {
	case string:
		return x
	case []interface{}:
		var ps []string
		for _, y := range x {
			ps = append(ps, sexprString(y))
		}
		return "(" + strings.Join(ps, " ") + ")"
	}
	return ""
}

func valOfSort(srt, term string) Val {
	switch {
	case srt == "Bool":
		return Val{K: KBool, T: term, Typ: boolT}
	case strings.HasPrefix(srt, "(_ BitVec "):
		var w int
		fmt.Sscanf(srt, "(_ BitVec %d)", &w)
		var t types.Type = types.Typ[types.Int64]
		switch w {
		case 32:
			t = types.Typ[types.Int32]
		case 16:
			t = types.Typ[types.Uint16]
		case 8:
			t = types.Typ[types.Uint8]
		}
		return Val{K: KBV, W: w, T: term, Typ: t}
	case srt == "(_ FloatingPoint 11 53)":
		return Val{K: KFP, W: 64, T: term, Typ: types.Typ[types.Float64]}
	case srt == "Str":
		return Val{K: KStr, T: term, Typ: types.Typ[types.String]}
	case srt == "Loc":
		return Val{K: KLoc, T: term, Typ: types.Typ[types.UnsafePointer]}
	case srt == "Slice":
		return Val{K: KSlice, T: term}
	case srt == "Iface":
		return Val{K: KIface, T: term, Typ: types.NewInterfaceType(nil, nil)}
	}
	return Val{K: KOpaque, Sort: srt, T: term}
}

func (c *cenv) specCall(name string, args []ast.Expr) Val {
	sig := c.fv.eng.specSigs["spec_"+name]
	if sig == nil {
		return c.fail("unknown spec function spec.%s", name)
	}
	if len(args) != len(sig.params) {
		return c.fail("spec.%s: %d arguments, want %d", name, len(args), len(sig.params))
	}
	var ts []string
	for i, a := range args {
		v := c.expr(a)
		want := sig.params[i]
		if v.K == KStruct || v.K == KTuple {
			return c.fail("spec.%s: aggregate argument", name)
		}
		if v.K == KBV && strings.HasPrefix(want, "(_ BitVec ") {
			var w int
			fmt.Sscanf(want, "(_ BitVec %d)", &w)
			if w != v.W {
				if v.Typ != nil && isUntyped(v.Typ) {
					v = c.resize(v, Val{K: KBV, W: w})
				} else {
					return c.fail("spec.%s: argument %d has width %d, want %d", name, i, v.W, w)
				}
			}
		} else if v.sortOf() != want {
			if v.T == "nil!" && want == "Loc" {
				v.T = "LNil"
			} else if want == "Int" && v.K == KBV {
				return c.fail("spec.%s: argument %d is a bit-vector, want Int", name, i)
			} else {
				return c.fail("spec.%s: argument %d has sort %s, want %s", name, i, v.sortOf(), want)
			}
		}
		ts = append(ts, v.T)
	}
	t := "spec_" + name
	if len(ts) > 0 {
		t = "(" + t + " " + strings.Join(ts, " ") + ")"
	}
	return valOfSort(sig.result, t)
}

// constPrelude defines the integer constants of packages token and parser
// (token_Add, parser_OpConstant, ...) from go/types on every run, so spec
// files never hard-code them.
func (e *Engine) constPrelude() string {
	var b strings.Builder
	b.WriteString("; ---- constants read from the Go packages\n")
	for _, path := range []string{modPath + "/token", modPath + "/parser", modPath} {
		p := e.tpkgs[path]
		if p == nil {
			continue
		}
		names := p.Scope().Names()
		sort.Strings(names)
		for _, n := range names {
			c, ok := p.Scope().Lookup(n).(*types.Const)
			if !ok {
				continue
			}
			k, w, _ := kindOf(c.Type())
			if k != KBV {
				continue
			}
			x, exact := constant.Int64Val(constant.ToInt(c.Val()))
			if !exact {
				continue
			}
			name := shortPkg(path) + "_" + n
			fmt.Fprintf(&b, "(define-fun %s () %s %s)\n", name, bvSort(w), bvConst(w, uint64(x)))
			e.specSigs[name] = &specSig{name: name, result: bvSort(w)}
		}
	}
	return b.String()
}
