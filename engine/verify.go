package main

import (
	"fmt"
	"go/token"
	"go/types"
	"regexp"
	"sort"
	"strings"

	"golang.org/x/tools/go/ssa"
)

// paramNames returns contract-visible names of a function's parameters.
func funcPkg(f *ssa.Function) *types.Package {
	p := f
	for p.Parent() != nil {
		p = p.Parent()
	}
	if p.Pkg != nil {
		return p.Pkg.Pkg
	}
	if p.Object() != nil {
		return p.Object().Pkg()
	}
	return nil
}

// verifyFunc generates all obligations of one function under contract.
func (e *Engine) verifyFunc(f *ssa.Function, ct *Contract) *FnVC {
	fv := newFnVC(e, f, ct)
	if f.Blocks == nil {
		fv.outOfSubset("function has no body")
		return fv
	}
	fv.emitGlobal("(declare-const A0 Int)")
	fv.emitGlobal("(assert (>= A0 0))")
	fv.allocEntry = "A0"
	st := &State{reach: "true", heaps: map[string]*Heap{}, alloc: "A0"}
	in := &inst{fv: fv, fn: f, vals: map[ssa.Value]Val{}, ct: ct, top: true, letVals: map[string]Val{}}
	if ct.hasMode("panics-allowed") {
		in.panicOK = true
	}
	if ct.hasMode("split-paths") {
		in.split = true
	}
	for i, p := range f.Params {
		v := fv.unknown(st, p.Type(), "p_"+sanitize(p.Name()))
		in.vals[p] = v
		in.params = append(in.params, v)
		fv.paramVals = append(fv.paramVals, v)
		if i == 0 && f.Signature.Recv() != nil && v.K == KLoc {
			fv.assume("true", not(eq(v.T, "LNil")))
		}
		if v.K == KIface && canonType(p.Type()) == modPath+".Object" {
			// type invariant of script values: an Object handed to an operation is never Go nil
			fv.assume("true", not(eq("(itag "+v.T+")", "0")))
			fv.note("assumed: parameters of type Object are non-nil (the VM turns Go nil into undefined before values reach operations)")
		}
	}
	for _, b := range f.FreeVars {
		v := fv.unknown(st, b.Type(), "fv_"+sanitize(b.Name()))
		if v.K == KLoc {
			// a captured variable is bound by reference to an existing cell
			if _, isPtr := types.Unalias(b.Type()).Underlying().(*types.Pointer); isPtr {
				fv.assume("true", not(eq(v.T, "LNil")))
				// the cell of a captured variable is an allocation of its own (never a field or an element)
				fv.assume("true", eq("(lpath "+v.T+")", "PNil"))
			}
		}
		in.vals[b] = v
		in.free = append(in.free, v)
	}
	in.entrySt = st.clone()
	fv.entry = in.entrySt
	ce := in.baseEnv(st)
	for _, l := range ct.Lets {
		v := ce.eval(l[1])
		ce.vars[l[0]] = v
		in.letVals[l[0]] = v
	}
	for _, r := range ct.Requires {
		if r.Assumed {
			fv.note("assumed input condition: " + r.Expr)
		}
		fv.assume("true", ce.evalAssume("true", r.Expr))
		// vacuity guard: the precondition must be satisfiable
	}
	if len(ct.Requires) > 0 {
		o := fv.oblige(funcKey(f)+"#cover:requires", "cover", nil, "true", "false", "requires is satisfiable (must be SAT)", f.Pos())
		// a cover obligation is expected to FAIL (sat); do not assume it
		last := fv.lines[len(fv.lines)-1]
		fv.lines = fv.lines[:len(fv.lines)-1]
		tl := fv.tagLines[last.tag]
		fv.tagLines[last.tag] = tl[:len(tl)-1]
		o.nlines = len(fv.lines)
	}
	if ct.Private != "" {
		pv := ce.eval(ct.Private)
		if pv.K != KLoc {
			ce.fail("private: pointer expected")
		} else {
			fv.private = pv.T
			fv.privName = ct.Private
			fv.note("assumed: callees with unknown effects cannot reach memory owned by `" + ct.Private + "` (encapsulation)")
		}
	}
	// frame
	if ct.AssignsAny {
		fv.frameAny = true
		if len(ct.Except) > 0 {
			fv.frame = ce.regions(ct.Except)
		}
	} else if len(ct.Assigns) > 0 {
		fv.frame = ce.regions(ct.Assigns)
	} else if !ct.AssignsSet {
		// no frame of its own (e.g. a synthesised contract): the function is bound by the
		// frames of the interface methods it implements; if those allow any write, so may it
		ims := fv.eng.refinedBy(f)
		anyAll := len(ims) > 0
		for _, im := range ims {
			if !im.ct.AssignsAny {
				anyAll = false
			}
		}
		if anyAll {
			fv.frameAny = true
		}
	}
	if ce.err != nil {
		fv.specErr(ce.err)
	}
	in.run(st)
	if fv.unsupported {
		return fv
	}
	fv.finish(in)
	return fv
}

// finish checks postconditions, interface refinement and the frame at every
// return of the function (one obligation per clause per return site).
func (fv *FnVC) finish(in *inst) {
	if len(in.rets) == 0 {
		fv.note("function has no normal return")
		return
	}
	rets := append([]retInfo(nil), in.rets...)
	sort.SliceStable(rets, func(i, j int) bool { return rets[i].pos < rets[j].pos })
	for ri, r := range rets {
		fv.curTag = r.node.tag
		suffix := ""
		if len(rets) > 1 {
			suffix = fmt.Sprintf("@ret%d", ri)
		}
		fv.finishReturn(in, r, suffix)
	}
}

func (fv *FnVC) finishReturn(in *inst, r retInfo, suffix string) {
	f := in.fn
	ct := fv.ct
	st := r.st
	vs := r.vals
	sig := f.Signature
	pos := r.pos
	fv.retVals, fv.retState = vs, st
	if !pos.IsValid() {
		pos = f.Pos()
	}
	in.at, in.atNode = r.node.blk, r.node
	ce := in.baseEnv(st)
	in.at, in.atNode = nil, nil
	for i, nm := range resultNames(sig) {
		ce.vars[nm] = vs[i]
	}
	if len(vs) == 1 {
		ce.vars["result"] = vs[0]
	}
	for _, en := range ct.Ensures {
		t := ce.evalGoal(en.Expr)
		fv.obligeClause(ce, funcKey(f)+"#"+en.Name+suffix, "post", in.propsFor(en), st.reach, t, en.Expr, pos)
	}
	if ce.err != nil {
		fv.specErr(ce.err)
	}
	// step clauses of enclosing invariant-cut loops, at exits from inside the loop
	for _, l := range in.loops {
		ls := in.loopSpec(l)
		snap := in.hdrState[l]
		if ls.Unroll > 0 || len(ls.Steps) == 0 || snap == nil || !exitsFromInside(l, r.node.blk) {
			continue
		}
		in.at, in.atNode = r.node.blk, r.node
		ce3 := in.baseEnv(st)
		in.at, in.atNode = nil, nil
		for k, v := range snap.vars {
			ce3.vars[k] = v // the loop's lets take precedence over source names
		}
		for i, nm := range resultNames(sig) {
			ce3.vars[nm] = vs[i]
		}
		ce3.it0 = snap.st
		ce3.it0vars = snap.vars
		ce3.pre = snap.pre
		ce3.prevars = snap.prevars
		ce3.vars["exited"] = bval("true")
		ce3.vars["continued"] = bval("false")
		ce3.where = fmt.Sprintf("%s loop %d exit", funcKey(f), l.ord)
		for _, sc := range ls.Steps {
			t := ce3.evalGoal(sc.Expr)
			fv.oblige(fmt.Sprintf("%s#step:%s@loop%d/exit%s", funcKey(f), sc.Name, l.ord, suffix), "step", in.propsFor(sc), st.reach, t, sc.Expr, pos)
		}
		if ce3.err != nil {
			fv.specErr(ce3.err)
		}
	}
	// behavioural subtyping: the interface-level contract of this method
	for _, im := range fv.eng.refinedBy(f) {
		isig := im.meth.Type().(*types.Signature)
		ce2 := in.baseEnv(st)
		ce2.vars = map[string]Val{}
		ce2.pkg = im.meth.Pkg()
		ce2.where = funcKey(f) + " refines " + im.meth.Name()
		recv := in.params[0]
		if recv.K == KLoc {
			recv = Val{K: KIface, T: fmt.Sprintf("(mkiface %d %s)", fv.eng.tagOf(f.Signature.Recv().Type()), recv.T), Typ: im.iface}
		} else if recv.K != KIface {
			fv.note("value receiver: interface-level clauses about self skipped for " + funcKey(f))
			continue
		}
		ce2.vars["self"] = recv
		for i := 0; i < isig.Params().Len() && i+1 < len(in.params); i++ {
			nm := isig.Params().At(i).Name()
			if nm == "" || nm == "_" {
				nm = fmt.Sprintf("a%d", i)
			}
			ce2.vars[nm] = in.params[i+1]
			ce2.vars[fmt.Sprintf("a%d", i)] = in.params[i+1]
		}
		for i, nm := range resultNames(isig) {
			ce2.vars[nm] = vs[i]
		}
		if len(vs) == 1 {
			ce2.vars["result"] = vs[0]
		}
		for _, l := range im.ct.Lets {
			ce2.vars[l[0]] = ce2.eval(l[1])
		}
		for _, en := range im.ct.Ensures {
			t := ce2.evalGoal(en.Expr)
			props := en.Props
			if len(props) == 0 {
				props = im.ct.Props
			}
			fv.obligeClause(ce2, funcKey(f)+"#refines:"+en.Name+suffix, "refines", props, st.reach, t, en.Expr, pos)
		}
		if ce2.err != nil {
			fv.specErr(ce2.err)
		}
	}
	// frame: every location allocated before entry and outside assigns is unchanged
	frameClaim := ct.AssignsSet || !ct.Synth // a hand-written contract without an assigns clause means "assigns nothing"
	for _, im := range fv.eng.refinedBy(f) {
		if im.ct.AssignsSet {
			frameClaim = true
		}
	}
	// a contract without an assigns clause (synthesised for a store-site inventory) claims no frame
	if frameClaim && (!fv.frameAny || len(fv.frame) > 0) {
		frameProps := append([]string(nil), in.propsFor(nil)...)
		for _, im := range fv.eng.refinedBy(f) {
			if im.ct.AssignsSet && !im.ct.AssignsAny && len(im.ct.Assigns) == 0 {
				frameProps = append(frameProps, im.ct.Props...)
			}
		}
		var keys []string
		for k := range st.heaps {
			keys = append(keys, k)
		}
		if fv.frameAny {
			for k := range fv.frame {
				if _, ok := st.heaps[k]; !ok {
					keys = append(keys, k)
				}
			}
		}
		sort.Strings(keys)
		for _, k := range keys {
			if fv.frameAny && fv.frame[k] == nil {
				continue // unconstrained heap under "assigns * except"
			}
			var h *Heap
			if hh, ok := st.heaps[k]; ok {
				h = hh
			} else {
				h = fv.heapOf(st, k, fv.frame[k].sort)
			}
			h0 := fv.heapOf(fv.entry, k, h.info.sort)
			if h.term == h0.term {
				continue
			}
			sk := fv.decl("fr", "Loc")
			inFrame := "false"
			if fv.frame != nil && fv.frame[k] != nil {
				inFrame = fv.frame[k].pred(sk)
			}
			var done func()
			if fv.frame != nil && fv.frame[k] != nil && len(fv.frameCPs) > 0 {
				done = fv.useFrameCPs(k, sk, st.reach)
			}
			goal := implies(and("(< (root "+sk+") A0)", "(not (= (root "+sk+") (- 1)))", not(inFrame)), eq(fv.loadRaw(h, sk), fv.loadRaw(h0, sk))) // the nil location holds nothing
			if done != nil {
				done()
			}
			fo := fv.oblige(funcKey(f)+"#frame:"+frameKeyName(k)+suffix, "frame", frameProps, st.reach, goal,
				"assigns: only declared locations of pre-existing objects change ("+k+")", pos)
			fo.Inherited = len(frameProps) == len(in.propsFor(nil))
		}
		if st.dirty != "" && st.dirty != "false" && !fv.frameAny {
			fv.oblige(funcKey(f)+"#frame:all"+suffix, "frame", frameProps, st.reach, not(st.dirty), "no call with unknown effects (it may write any memory) on a path to this return", pos)
		}
	}
}

// obligeClause registers a clause obligation; when the known-findings file
// lists it with a witness predicate, the clause is additionally proved on
// the complement of the witness region.
func (fv *FnVC) obligeClause(ce *cenv, id, kind string, props []string, guard, goal, clause string, pos token.Pos) {
	for _, k := range fv.eng.known {
		if k.Status != "known" || k.Witness == "" {
			continue
		}
		match := k.Obligation == id
		if strings.HasSuffix(k.Obligation, "*") {
			match = strings.HasPrefix(id, strings.TrimSuffix(k.Obligation, "*"))
		}
		if !match {
			continue
		}
		w := ce.evalSpec(k.Witness)
		// complement first (it must hold), then the full clause (expected to fail)
		o := &Obligation{ID: id + "!outside-known-finding", Kind: kind, Props: props, Func: funcKey(fv.top), Clause: "!(" + k.Witness + ") ==> " + clause,
			tag: fv.curTag, nlines: len(fv.lines), guard: guard, goal: or(w, goal), fv: fv}
		fv.obls = append(fv.obls, o)
		o2 := &Obligation{ID: id, Kind: kind, Props: props, Func: funcKey(fv.top), Clause: clause, tag: fv.curTag, nlines: len(fv.lines), guard: guard, goal: goal, fv: fv}
		if pos.IsValid() {
			p := fv.eng.prog.Fset.Position(pos)
			o.Pos = fmt.Sprintf("%s:%d", strings.TrimPrefix(p.Filename, fv.eng.repo+"/"), p.Line)
			o2.Pos = o.Pos
		}
		o.results, o.post = fv.retVals, fv.retState
		o2.results, o2.post = fv.retVals, fv.retState
		fv.obls = append(fv.obls, o2)
		fv.assume(guard, or(w, goal))
		return
	}
	o := fv.oblige(id, kind, props, guard, goal, clause, pos)
	o.results, o.post = fv.retVals, fv.retState
}

func frameKeyName(k string) string {
	k = strings.ReplaceAll(k, modPath+"/", "")
	k = strings.ReplaceAll(k, modPath+".", "")
	return k
}

// query builds the SMT-LIB text of one obligation (sliced to its cone).
func (o *Obligation) query() string { return o.queryLevel(0) }

// queryLevel(rounds): rounds == 0 gives the full (cone-sliced) query; rounds > 0
// additionally keeps only assertions within that many steps of symbol sharing
// from the goal (dropping hypotheses is sound; a result other than unsat on a
// reduced query is never used).
func (o *Obligation) queryLevel(rounds int) string {
	if o.raw != "" {
		return o.raw
	}
	fv := o.fv
	var b strings.Builder
	b.WriteString(preludeSorts)
	b.WriteString(fv.eng.specText)
	anc := fv.anc[o.tag]
	for _, i := range fv.tagLines[-1] {
		b.WriteString(fv.lines[i].text)
		b.WriteByte('\n')
	}
	var idx []int
	if o.tag == -1 {
		for i := 0; i < o.nlines; i++ {
			if fv.lines[i].tag != -1 {
				idx = append(idx, i)
			}
		}
	} else {
		for t := range anc {
			for _, i := range fv.tagLines[t] {
				if i < o.nlines {
					idx = append(idx, i)
				}
			}
		}
		sort.Ints(idx)
	}
	var body []string
	for _, i := range idx {
		if o.exclude != nil && fv.lines[i].obl != nil && o.exclude[fv.lines[i].obl] {
			continue
		}
		if o.exclude != nil && i >= o.batchFrom {
			// a batch is proved in the context of its FIRST member: facts asserted after that point (for
			// instance the well-formedness of a slice just cut) presuppose earlier members; only the
			// definitions of the names the later goals mention are kept
			t := fv.lines[i].text
			if !strings.HasPrefix(t, "(declare-") && !strings.HasPrefix(t, "(define-") {
				continue
			}
		}
		body = append(body, fv.lines[i].text)
	}
	var goalLine string
	if o.Kind == "cover" {
		goalLine = "(assert " + o.guard + ")"
	} else {
		goalLine = "(assert (not " + implies(o.guard, o.goal) + "))"
	}
	if rounds > 0 {
		var globals []string
		for _, i := range fv.tagLines[-1] {
			globals = append(globals, fv.lines[i].text)
		}
		keepG, keepB := relevanceSlice(globals, body, goalLine, rounds)
		b.Reset()
		b.WriteString(preludeSorts)
		b.WriteString(fv.eng.specText)
		for i, l := range globals {
			if keepG[i] {
				b.WriteString(l)
				b.WriteByte('\n')
			}
		}
		for i, l := range body {
			if keepB[i] {
				b.WriteString(l)
				b.WriteByte('\n')
			}
		}
		b.WriteString(fv.tagFacts())
		b.WriteString(goalLine + "\n(check-sat)\n")
		return b.String()
	}
	for _, l := range body {
		b.WriteString(l)
		b.WriteByte('\n')
	}
	b.WriteString(fv.tagFacts())
	b.WriteString(goalLine + "\n(check-sat)\n")
	return b.String()
}

// tagFacts: what is known about each dynamic type tag.
func (fv *FnVC) tagFacts() string {
	e := fv.eng
	var b strings.Builder
	var preds []string
	for p := range fv.implDecl {
		preds = append(preds, p)
	}
	sort.Strings(preds)
	type kv struct {
		k  string
		id int
	}
	var tags []kv
	for k, id := range e.tags {
		tags = append(tags, kv{k, id})
	}
	sort.Slice(tags, func(i, j int) bool { return tags[i].id < tags[j].id })
	for _, t := range tags {
		typ := e.tagTypes[t.id-1]
		if fv.ufDecl["tag_boxed"] {
			boxed := "true"
			if strings.HasPrefix(t.k, "*") || strings.HasPrefix(t.k, "map[") || strings.HasPrefix(t.k, "func(") || strings.HasPrefix(t.k, "chan ") {
				boxed = "false"
			}
			fmt.Fprintf(&b, "(assert (= (tag_boxed %d) %s))\n", t.id, boxed)
		}
		for _, p := range preds {
			it := fv.implTypes[p]
			val := "false"
			if typ != nil {
				if types.Implements(typ, it.Underlying().(*types.Interface)) {
					val = "true"
				}
			} else if t.k == "*errors.errorString" {
				if canonType(it) == "error" {
					val = "true"
				}
			}
			fmt.Fprintf(&b, "(assert (= (%s %d) %s))\n", p, t.id, val)
		}
	}
	return b.String()
}

var symRe = regexp.MustCompile(`[A-Za-z_][A-Za-z0-9_!]*`)

var smtKeywords = map[string]bool{"assert": true, "and": true, "or": true, "not": true, "ite": true, "select": true, "store": true, "true": true, "false": true,
	"declare": true, "define": true, "fun": true, "const": true, "let": true, "forall": true, "exists": true, "Array": true, "Loc": true, "Slice": true, "Iface": true,
	"Str": true, "Int": true, "Bool": true, "BitVec": true, "FloatingPoint": true, "_": true, "distinct": true}

func lineSyms(l string) []string {
	ws := symRe.FindAllString(l, -1)
	out := ws[:0]
	for _, w := range ws {
		if !smtKeywords[w] && !strings.HasPrefix(w, "bv") && !strings.HasPrefix(w, "x0") {
			out = append(out, w)
		}
	}
	return out
}

// relevanceSlice keeps definitions of used symbols and the assertions that
// share a (non-ubiquitous) symbol with the goal within `rounds` steps.
func relevanceSlice(globals, body []string, goal string, rounds int) (keepG, keepB []bool) {
	all := append(append([]string(nil), globals...), body...)
	n := len(all)
	syms := make([][]string, n)
	isAssert := make([]bool, n)
	defines := map[string]int{}
	freq := map[string]int{}
	nAssert := 0
	for i, l := range all {
		syms[i] = lineSyms(l)
		if strings.HasPrefix(l, "(assert") {
			isAssert[i] = true
			nAssert++
			seen := map[string]bool{}
			for _, s := range syms[i] {
				if !seen[s] {
					seen[s] = true
					freq[s]++
				}
			}
		} else if len(syms[i]) > 0 {
			defines[syms[i][0]] = i
		}
	}
	common := func(s string) bool { return nAssert > 40 && freq[s]*8 > nAssert }
	keep := make([]bool, n)
	rel := map[string]bool{}
	var addSym func(s string)
	addSym = func(s string) {
		if rel[s] {
			return
		}
		rel[s] = true
		if i, ok := defines[s]; ok && !keep[i] {
			keep[i] = true
			for _, t := range syms[i][1:] {
				addSym(t)
			}
		}
	}
	for _, s := range lineSyms(goal) {
		addSym(s)
	}
	for r := 0; r < rounds; r++ {
		var newly []int
		for i := 0; i < n; i++ {
			if !isAssert[i] || keep[i] {
				continue
			}
			for _, s := range syms[i] {
				if rel[s] && !common(s) {
					newly = append(newly, i)
					break
				}
			}
		}
		if len(newly) == 0 {
			break
		}
		for _, i := range newly {
			keep[i] = true
		}
		for _, i := range newly {
			for _, s := range syms[i] {
				addSym(s)
			}
		}
	}
	// declarations of every symbol that is used by something kept
	for i := 0; i < n; i++ {
		if keep[i] {
			for _, s := range syms[i] {
				if j, ok := defines[s]; ok && !keep[j] {
					keep[j] = true
					for _, t := range syms[j][1:] {
						addSym(t)
					}
				}
			}
		}
	}
	// closure: definitions pulled in late may reference further definitions
	for changed := true; changed; {
		changed = false
		for s := range rel {
			if j, ok := defines[s]; ok && !keep[j] {
				keep[j] = true
				changed = true
				for _, t := range syms[j][1:] {
					if !rel[t] {
						rel[t] = true
						changed = true
					}
				}
			}
		}
	}
	return keep[:len(globals)], keep[len(globals):]
}

// exitsFromInside: the block (a return) leaves loop l from inside an
// iteration: it is dominated by the loop header but is not reached through
// the header's own exit branch (the loop condition turning false).
func exitsFromInside(l *loopInfo, b *ssa.BasicBlock) bool {
	if l.body[b] {
		return true
	}
	if !l.header.Dominates(b) {
		return false
	}
	for _, s := range l.header.Succs {
		if !l.body[s] && (s == b || s.Dominates(b)) {
			return false
		}
	}
	return true
}
