package main

import (
	"regexp"
	"flag"
	"runtime/pprof"
	"time"
	"fmt"
	"os"
	"sort"
	"strings"
)

func main() {
	if len(os.Args) < 2 {
		fmt.Fprintln(os.Stderr, "usage: tgvc <check|verify|ssa> ...")
		os.Exit(2)
	}
	if pf := os.Getenv("TGVC_PROF"); pf != "" {
		f, _ := os.Create(pf)
		pprof.StartCPUProfile(f)
		go func() {
			time.Sleep(60 * time.Second)
			pprof.StopCPUProfile()
			f.Close()
			os.Exit(3)
		}()
	}
	switch os.Args[1] {
	case "ssa":
		cmdSSA(os.Args[2:])
	case "verify":
		cmdVerify(os.Args[2:])
	case "check":
		os.Exit(cmdCheck(os.Args[2:]))
	case "replay":
		os.Exit(cmdReplay(os.Args[2:]))
	default:
		fmt.Fprintln(os.Stderr, "unknown command", os.Args[1])
		os.Exit(2)
	}
}

func mustLoad(repo, specDir string) *Engine {
	e, err := loadEngine(repo)
	if err != nil {
		fmt.Fprintln(os.Stderr, "load:", err)
		os.Exit(2)
	}
	if err := e.loadSpecs(specDir); err != nil {
		fmt.Fprintln(os.Stderr, "spec:", err)
		os.Exit(2)
	}
	return e
}

func cmdSSA(args []string) {
	e := mustLoad("/repo", "/verif/spec")
	for _, f := range e.modFuncs {
		for _, a := range args {
			if funcKey(f) == a || strings.HasSuffix(f.String(), a) {
				f.WriteTo(os.Stdout)
				for i, l := range findLoops(f) {
					fmt.Printf("# loop %d: header block %d\n", i, l.header.Index)
				}
			}
		}
	}
}

// verify: debug command — verify the named functions and print a table.
func cmdVerify(args []string) {
	fs := flag.NewFlagSet("verify", flag.ExitOnError)
	timeout := fs.Int("timeout", 10, "solver timeout (s)")
	work := fs.String("work", "/verif/work/dbg", "work dir")
	verbose := fs.Bool("v", false, "verbose")
	kinds := fs.String("kinds", "", "only obligations of these kinds (comma separated)")
	idMatch := fs.String("match", "", "only obligations whose id contains this")
	trace := fs.Bool("trace", false, "for refuted obligations print the branch decisions of the counterexample")
	repo := fs.String("repo", "/repo", "repository (a scratch copy for self-tests)")
	fs.Parse(args)
	e := mustLoad(*repo, "/verif/spec")
	var obls []*Obligation
	for _, ct := range e.allCts {
		f := e.ctFunc[ct]
		if f == nil {
			continue
		}
		match := len(fs.Args()) == 0
		for _, a := range fs.Args() {
			if strings.Contains(funcKey(f), a) {
				match = true
			}
		}
		if !match {
			continue
		}
		fv := e.verifyFunc(f, ct)
		for _, s := range fv.specErrs {
			fmt.Println("SPEC ERROR:", s)
		}
		for _, s := range fv.oos {
			fmt.Println("OUT OF SUBSET:", funcKey(f), s)
		}
		if *verbose {
			var ns []string
			for n := range fv.notes {
				ns = append(ns, n)
			}
			sort.Strings(ns)
			for _, n := range ns {
				fmt.Println("NOTE:", funcKey(f), n)
			}
		}
 		for _, o := range fv.obls {
			if ct.hasMode("assumed") && o.Kind != "step" && o.Kind != "inv-init" && o.Kind != "inv-step" {
				continue
			}
			if *kinds != "" && !strings.Contains(","+*kinds+",", ","+o.Kind+",") {
				continue
			}
			if *idMatch != "" && !strings.Contains(o.ID, *idMatch) {
				continue
			}
			obls = append(obls, o)
		}
	}
	solveAll(obls, *work, *timeout, false, numWorkers())
	bad := 0
	for _, o := range obls {
		r := o.Result
		ok := r.Verdict == "unsat"
		if o.Kind == "cover" {
			ok = r.Verdict == "sat"
		}
		if !ok {
			bad++
		}
		if !ok || *verbose {
			fmt.Printf("%-7s %-8s %-60s %s %.2fs %s\n", map[bool]string{true: "ok", false: "FAIL"}[ok], r.Verdict, o.ID, r.Solver, r.Total, o.Pos)
		}
		if !ok && *trace && r.Verdict == "sat" && o.fv != nil {
			for _, l := range pathTrace(o, r.File, *timeout) {
				fmt.Println("        " + l)
			}
		}
	}
	fmt.Printf("%d obligations, %d not discharged\n", len(obls), bad)
}


// pathTrace re-solves a refuted query asking for the value of every branch
// condition and lists the branches taken, with source positions.
func pathTrace(o *Obligation, file string, timeout int) []string {
	b, err := os.ReadFile(file)
	if err != nil {
		return nil
	}
	q := string(b)
	re := regexp.MustCompile(`\(define-fun (edge_\d+) \(\) Bool`)
	var names []string
	for _, m := range re.FindAllStringSubmatch(q, -1) {
		names = append(names, m[1])
	}
	if len(names) == 0 {
		return nil
	}
	q = strings.Replace(q, "(get-model)", "", 1) + "(get-value (" + strings.Join(names, " ") + "))\n"
	tf := file + ".trace.smt2"
	os.WriteFile(tf, []byte(q), 0o644)
	_, out, _ := runSolver(solvers[0], tf, timeout)
	var res []string
	for _, m := range regexp.MustCompile(`\((edge_\d+) true\)`).FindAllStringSubmatch(out, -1) {
		res = append(res, m[1]+"  "+o.fv.edgePos[m[1]])
	}
	return res
}
