package main

import (
	"fmt"
	"go/token"
	"go/types"
	"math"
	"sort"
	"strings"

	"golang.org/x/tools/go/ssa"
)

// vline is one line of SMT text tagged with the virtual node that produced it
// (-1 = valid everywhere). Queries are sliced by tag (backward cone).
type vline struct {
	text string
	tag  int
	obl  *Obligation // set on the line that assumes an obligation's goal after it was registered
}

// Obligation is one proof obligation of a function.
type Obligation struct {
	ID        string
	Kind      string // safety | pre | post | frame | inv-init | inv-step | unwind | step | refines | site | lemma
	Props     []string
	Func      string
	Clause    string // clause text (if any)
	Pos       string
	tag       int
	nlines    int // number of lines of fv.lines that precede it
	guard     string
	goal      string
	extra     []string // extra declarations local to this obligation
	fv        *FnVC
	Result    *SolveResult
	witness   *Clause
	raw       string               // complete query text (lemmas)
	results   []Val                // result values at the return this clause obligation belongs to (replay)
	post      *State               // state at that return
	Inherited bool                 // the obligation carries the function-level property list (no tag of its own)
	batchFrom int                  // batches: number of lines that existed before the first member
	exclude   map[*Obligation]bool // batch members: their own assumption lines are left out
}

type heapInfo struct {
	key  string // canonical Go type of the stored leaf (or map pseudo-key)
	name string // SMT base name
	sort string // element sort
}

// Heap is a version of one type-partitioned heap.
type Heap struct {
	term   string
	info   *heapInfo
	havocs []*havoc
}

// havoc records that part of a heap was replaced by unknown (or specified)
// contents: sym agrees with parent outside region.
type havoc struct {
	sym         string
	parent      *Heap
	region      func(loc string) string // nil: everything
	content     func(loc string) string // nil: unknown (select sym loc)
	done        map[string]bool
	inst        map[string][]int      // loc -> tags at which the frame instance was emitted
	calleeFrame bool                  // created from a callee's assigns clause
	relevant    func(loc string) bool // syntactic filter: false = the frame instance at loc is vacuous
}

// State is the symbolic machine state at a program point.
type State struct {
	reach string
	heaps map[string]*Heap
	alloc string         // Int term: ids >= alloc are unallocated
	epoch int            // bumped when all memory is havocked
	dirty string         // Bool term: a call with unknown effects happened on the path ("" = false)
	ghost map[string]Val // results of the latest interface-method calls (callresult())
	tags  map[string]int // interface term -> dynamic type tag known on every path to here (>0), or -tag: known NOT to be
}

func (s *State) clone() *State {
	n := &State{reach: s.reach, alloc: s.alloc, epoch: s.epoch, dirty: s.dirty, heaps: make(map[string]*Heap, len(s.heaps))}
	for k, v := range s.heaps {
		n.heaps[k] = v
	}
	if len(s.ghost) > 0 {
		n.ghost = make(map[string]Val, len(s.ghost))
		for k, v := range s.ghost {
			n.ghost[k] = v
		}
	}
	if len(s.tags) > 0 {
		n.tags = make(map[string]int, len(s.tags))
		for k, v := range s.tags {
			n.tags[k] = v
		}
	}
	return n
}

// FnVC generates the verification conditions of one function under contract.
type FnVC struct {
	eng             *Engine
	top             *ssa.Function
	ct              *Contract
	lines           []vline
	curTag          int
	anc             map[int]map[int]bool
	n               int
	heapTab         map[string]*heapInfo
	heapList        []*heapInfo
	obls            []*Obligation
	strLits         map[string]string
	gids            map[ssa.Value]int
	notes           map[string]bool // abstractions applied (unknown calls, havocs)
	oos             []string        // out-of-subset constructs met
	entry           *State
	allocEntry      string
	only            map[string]bool // restrict obligations to these props (nil = all)
	boundDepth      int
	ufDecl          map[string]bool
	implDecl        map[string]bool
	unsupported     bool
	epoch           int
	closures        map[string]*closureRec
	ranges          map[*ssa.Range]*rangeRec
	usedExternal    map[string]bool
	usedContracts   map[string]bool
	specErrs        []string
	frame           map[string]*region
	frameAny        bool
	implTypes       map[string]types.Type
	mergedEpochs    map[int]*mergedEpoch
	privEpochs      map[int]*privEpoch
	epochTag        map[int]int
	baseCache       map[string]*Heap
	localRoots      []string // (use visibleLocalRoots) roots of allocations that never escape the function
	localRootTag    []int
	private         string             // root term of memory that unknown callees cannot reach
	privName        string             // the contract's name for it (a parameter)
	loopPassesPriv  map[*loopInfo]bool // loops containing a contracted assigns-* call that is handed the private root
	ifaceFrameProps []string
	lazies          []*lazyQuant
	defMemo         map[string][]defEntry
	assumeMemo      map[string][]int
	inInst          int
	quiet           int // >0: loads made while evaluating assumed clauses do not instantiate frame axioms
	akCache         map[*ssa.Function]map[string]string
	tagLines        map[int][]int // line indices per tag
	siteN           int
	elemLocs        map[string]bool
	frameCPs        []*frameCP
	paramVals       []Val // entry values of the parameters (receiver first)
	retVals         []Val // results at the return whose clauses are being generated
	retState        *State
	reachAnd        map[string][]string // path condition -> path conditions it is a strengthening of
	reachOr         map[string][]string // merged path condition -> its disjuncts
	oblIDs          map[string]int
	cpStop          map[string]bool   // heap terms at which frame-axiom instantiation stops (a checkpoint fact covers the rest)
	edgePos         map[string]string // branch condition name -> source position (for counterexample traces)
	nilableLocs     map[string]bool   // element locations of containers declared `nilable`
	skolems         []skolem
	okTerms         map[string]okFact // Bool term of a comma-ok type assertion -> what it tests
}

type okFact struct {
	iface string
	tag   int
}

func newFnVC(e *Engine, f *ssa.Function, ct *Contract) *FnVC {
	return &FnVC{eng: e, top: f, ct: ct, curTag: -1, anc: map[int]map[int]bool{}, heapTab: map[string]*heapInfo{},
		strLits: map[string]string{}, gids: map[ssa.Value]int{}, notes: map[string]bool{}, ufDecl: map[string]bool{}, implDecl: map[string]bool{},
		closures: map[string]*closureRec{}, ranges: map[*ssa.Range]*rangeRec{}, usedExternal: map[string]bool{}, usedContracts: map[string]bool{}, implTypes: map[string]types.Type{}, okTerms: map[string]okFact{}, edgePos: map[string]string{}, elemLocs: map[string]bool{}, nilableLocs: map[string]bool{}}
}

func (fv *FnVC) emit(text string) {
	fv.addLine(vline{text: text, tag: fv.curTag})
}

func (fv *FnVC) emitGlobal(text string) {
	fv.addLine(vline{text: text, tag: -1})
}

func (fv *FnVC) addLine(l vline) {
	if fv.tagLines == nil {
		fv.tagLines = map[int][]int{}
	}
	fv.tagLines[l.tag] = append(fv.tagLines[l.tag], len(fv.lines))
	fv.lines = append(fv.lines, l)
}

func (fv *FnVC) fresh(prefix string) string {
	fv.n++
	return fmt.Sprintf("%s_%d", prefix, fv.n)
}

// def names a term; short terms are returned unchanged.
func (fv *FnVC) def(prefix, srt, term string) string {
	if fv.boundDepth > 0 {
		return term
	}
	if len(term) < 48 && !strings.Contains(term, "(ite ") {
		return term
	}
	// common subexpressions: reuse a name defined at a visible point
	if fv.defMemo == nil {
		fv.defMemo = map[string][]defEntry{}
	}
	for _, d := range fv.defMemo[term] {
		if d.tag == -1 || d.tag == fv.curTag || (fv.anc[fv.curTag] != nil && fv.anc[fv.curTag][d.tag]) {
			return d.name
		}
	}
	n := fv.fresh(prefix)
	fv.emit(fmt.Sprintf("(define-fun %s () %s %s)", n, srt, term))
	fv.defMemo[term] = append(fv.defMemo[term], defEntry{n, fv.curTag})
	return n
}

type defEntry struct {
	name string
	tag  int
}

func (fv *FnVC) defAlways(prefix, srt, term string) string {
	if fv.boundDepth > 0 {
		return term
	}
	n := fv.fresh(prefix)
	fv.emit(fmt.Sprintf("(define-fun %s () %s %s)", n, srt, term))
	return n
}

// decl declares a fresh unconstrained constant.
func (fv *FnVC) decl(prefix, srt string) string {
	n := fv.fresh(prefix)
	fv.emit(fmt.Sprintf("(declare-const %s %s)", n, srt))
	return n
}

func (fv *FnVC) assume(guard, fact string) {
	if fact == "true" {
		return
	}
	text := "(assert " + implies(guard, fact) + ")"
	if fv.assumeMemo == nil {
		fv.assumeMemo = map[string][]int{}
	}
	if fv.emittedHere(fv.assumeMemo, text) {
		return
	}
	fv.emit(text)
}

func (fv *FnVC) note(s string) { fv.notes[s] = true }

func (fv *FnVC) outOfSubset(s string) {
	fv.oos = append(fv.oos, s)
	fv.unsupported = true
}

// oblige registers a proof obligation at the current point and then assumes it.
func (fv *FnVC) oblige(id, kind string, props []string, guard, goal, clause string, pos token.Pos) *Obligation {
	if fv.oblIDs == nil {
		fv.oblIDs = map[string]int{}
	}
	fv.oblIDs[id]++
	if c := fv.oblIDs[id]; c > 1 {
		id = fmt.Sprintf("%s~%d", id, c) // the same site reached again (inlined callee, duplicated block)
	}
	o := &Obligation{ID: id, Kind: kind, Props: props, Func: funcKey(fv.top), Clause: clause, tag: fv.curTag,
		nlines: len(fv.lines), guard: guard, goal: goal, fv: fv}
	if fv.ct != nil && len(props) == len(fv.ct.Props) && (len(props) == 0 || &props[0] == &fv.ct.Props[0]) {
		o.Inherited = true
	}
	if pos.IsValid() {
		p := fv.eng.prog.Fset.Position(pos)
		o.Pos = fmt.Sprintf("%s:%d", strings.TrimPrefix(p.Filename, fv.eng.repo+"/"), p.Line)
	}
	fv.obls = append(fv.obls, o)
	if goal != "true" {
		fv.addLine(vline{text: "(assert " + implies(guard, goal) + ")", tag: fv.curTag, obl: o})
	}
	return o
}

// ---------------------------------------------------------------------------
// heaps
// ---------------------------------------------------------------------------

func (fv *FnVC) heapInfoFor(key, srt string) *heapInfo {
	if hi, ok := fv.heapTab[key]; ok {
		return hi
	}
	hi := &heapInfo{key: key, sort: srt, name: fmt.Sprintf("H%d", len(fv.heapTab))}
	fv.heapTab[key] = hi
	fv.heapList = append(fv.heapList, hi)
	fv.emitGlobal(fmt.Sprintf("(declare-const %s_0 (Array Loc %s)) ; heap of %s", hi.name, srt, key))
	return hi
}

func (fv *FnVC) heapOf(st *State, key, srt string) *Heap {
	if h, ok := st.heaps[key]; ok {
		return h
	}
	hi := fv.heapInfoFor(key, srt)
	return fv.baseHeapObj(hi, st.epoch)
}

// baseHeapObj is the unknown initial contents of a heap in a given epoch:
// epoch 0 is the state at function entry; later epochs arise from calls with
// unknown effects (possibly preserving the memory owned by a private root)
// and from joins of paths with different epochs.
func (fv *FnVC) baseHeapObj(hi *heapInfo, epoch int) *Heap {
	if epoch == 0 {
		return &Heap{term: hi.name + "_0", info: hi}
	}
	ck := fmt.Sprintf("%s/%d", hi.key, epoch)
	if h, ok := fv.baseCache[ck]; ok {
		return h
	}
	n := fmt.Sprintf("%s_e%d", hi.name, epoch)
	var h *Heap
	if me := fv.mergedEpochs[epoch]; me != nil {
		last := fv.baseHeapObj(hi, me.parents[len(me.parents)-1])
		t := last.term
		hv := last.havocs
		for i := len(me.parents) - 2; i >= 0; i-- {
			p := fv.baseHeapObj(hi, me.parents[i])
			t = ite(me.conds[i], p.term, t)
			hv = mergeHavocs(p.havocs, hv)
		}
		fv.addLine(vline{text: fmt.Sprintf("(define-fun %s () (Array Loc %s) %s)", n, hi.sort, t), tag: me.tag})
		h = &Heap{term: n, info: hi, havocs: hv}
	} else if pe := fv.privEpochs[epoch]; pe != nil {
		fv.addLine(vline{text: fmt.Sprintf("(declare-const %s (Array Loc %s))", n, hi.sort), tag: pe.tag})
		parent := fv.baseHeapObj(hi, pe.prev)
		reg := pe.region
		ni := fv.notImmutable(hi.key, pe.alloc)
		if ni != nil {
			r0 := reg
			reg = func(l string) string { return and(r0(l), ni(l)) }
		}
		if pe.onlyImmutable && ni == nil {
			h = &Heap{term: n, info: hi}
		} else {
			hvc := &havoc{sym: n, parent: parent, region: reg, done: map[string]bool{}, relevant: pe.relevant(fv, hi.key)}
			h = &Heap{term: n, info: hi, havocs: []*havoc{hvc}}
		}
	} else {
		tg := -1
		if t, ok := fv.epochTag[epoch]; ok {
			tg = t
		}
		fv.addLine(vline{text: fmt.Sprintf("(declare-const %s (Array Loc %s))", n, hi.sort), tag: tg})
		h = &Heap{term: n, info: hi}
	}
	if fv.baseCache == nil {
		fv.baseCache = map[string]*Heap{}
	}
	fv.baseCache[ck] = h
	return h
}

type privEpoch struct {
	prev          int
	region        func(string) string
	alloc         string
	onlyImmutable bool
	tag           int
	localOnly     bool // the kept memory consists of non-escaping local cells only (no private root)
	roots         []string
}

// mergedEpoch: the memory epoch after a join of paths with different epochs.
type mergedEpoch struct {
	conds   []string
	parents []int
	tag     int
}

func (fv *FnVC) arrSort(hi *heapInfo) string { return "(Array Loc " + hi.sort + ")" }

// loadRaw reads heap h at loc, instantiating havoc frame axioms for loc.
func (fv *FnVC) loadRaw(h *Heap, loc string) string {
	if fv.boundDepth > 0 {
		return fv.loadExpanded(h, loc)
	}
	for _, hv := range h.havocs {
		fv.instHavoc(hv, loc)
	}
	return "(select " + h.term + " " + loc + ")"
}

// emittedHere: was a fact keyed k already emitted at a point that is visible
// from the current slicing tag (an ancestor node, or a global line)?
func (fv *FnVC) emittedHere(memo map[string][]int, k string) bool {
	for _, t := range memo[k] {
		if t == -1 || t == fv.curTag {
			return true
		}
		if a := fv.anc[fv.curTag]; a != nil && a[t] {
			return true
		}
	}
	memo[k] = append(memo[k], fv.curTag)
	return false
}

func (fv *FnVC) instHavoc(hv *havoc, loc string) {
	if hv.inst == nil {
		hv.inst = map[string][]int{}
	}
	if hv.relevant != nil && !hv.relevant(loc) {
		// vacuous instance; still descend so that older havocs are instantiated
		if !fv.emittedHere(hv.inst, loc) {
			fv.loadRaw(hv.parent, loc)
		}
		return
	}
	if fv.emittedHere(hv.inst, loc) {
		return
	}
	var inner string
	if fv.cpStop != nil && fv.cpStop[hv.parent.term] {
		inner = "(select " + hv.parent.term + " " + loc + ")"
	} else {
		inner = fv.loadRaw(hv.parent, loc)
	}
	sel := "(select " + hv.sym + " " + loc + ")"
	if hv.region == nil {
		if hv.content != nil {
			fv.emit("(assert " + eq(sel, hv.content(loc)) + ")")
		}
		return
	}
	r := hv.region(loc)
	if hv.content != nil {
		fv.emit("(assert " + eq(sel, ite(r, hv.content(loc), inner)) + ")")
	} else {
		fv.emit("(assert " + implies(not(r), eq(sel, inner)) + ")")
	}
}

// loadExpanded is used under binders, where side assertions are impossible.
// It only supports heaps whose havocs can be expanded structurally; since the
// SMT term of a heap hides its stores, we fall back to the select term and
// add the frame facts as a conjunction guard via ite on region membership.
func (fv *FnVC) loadExpanded(h *Heap, loc string) string {
	t := "(select " + h.term + " " + loc + ")"
	// Havoc symbols below stores cannot be instantiated for a bound loc by a
	// side assertion; emit universally quantified frame axioms once per havoc.
	for _, hv := range h.havocs {
		fv.quantHavoc(hv)
	}
	return t
}

func (fv *FnVC) quantHavoc(hv *havoc) {
	if hv.done["\x00forall"] {
		return
	}
	hv.done["\x00forall"] = true
	save := fv.boundDepth
	fv.boundDepth = 1
	inner := fv.loadExpanded(hv.parent, "l!")
	sel := "(select " + hv.sym + " l!)"
	var body string
	if hv.region == nil {
		if hv.content == nil {
			fv.boundDepth = save
			return
		}
		body = eq(sel, hv.content("l!"))
	} else if hv.content != nil {
		body = eq(sel, ite(hv.region("l!"), hv.content("l!"), inner))
	} else {
		body = implies(not(hv.region("l!")), eq(sel, inner))
	}
	fv.boundDepth = save
	fv.emit("(assert (forall ((l! Loc)) (! " + body + " :pattern (" + sel + "))))")
}

func (fv *FnVC) storeRaw(st *State, key, srt, loc, val string) {
	h := fv.heapOf(st, key, srt)
	nm := fv.defAlways(h.info.name, fv.arrSort(h.info), "(store "+h.term+" "+loc+" "+val+")")
	st.heaps[key] = &Heap{term: nm, info: h.info, havocs: h.havocs}
}

// havocHeap replaces the part of heap key selected by region with unknown or
// given contents.
// notImmutable: l is not an immutable-after-construction field (of heap key)
// of an object that already existed at allocation counter alloc.
func (fv *FnVC) notImmutable(key, alloc string) func(string) string {
	var fis []*FieldInv
	for _, fi := range fv.eng.immutables {
		if fi.LeafKey == key {
			fis = append(fis, fi)
		}
	}
	if len(fis) == 0 {
		return nil
	}
	return func(l string) string {
		var cs []string
		for _, fi := range fis {
			cs = append(cs, not(and("(isLField "+l+")", eq("(fidx "+l+")", fmt.Sprint(fi.Index)), eq("(ltype (fpar "+l+"))", fmt.Sprint(fi.TypeID)), "(< (root "+l+") "+alloc+")")))
		}
		return and(cs...)
	}
}

func (fv *FnVC) havocHeap(st *State, key, srt string, region, content func(string) string) *havoc {
	if content == nil {
		if ni := fv.notImmutable(key, st.alloc); ni != nil {
			r0 := region
			if r0 == nil {
				region = ni
			} else {
				region = func(l string) string { return and(r0(l), ni(l)) }
			}
		}
	}
	h := fv.heapOf(st, key, srt)
	sym := fv.decl(h.info.name+"v", fv.arrSort(h.info))
	hv := &havoc{sym: sym, parent: h, region: region, content: content, done: map[string]bool{}}
	st.heaps[key] = &Heap{term: sym, info: h.info, havocs: []*havoc{hv}}
	return hv
}

func mergeHavocs(a, b []*havoc) []*havoc {
	if len(b) == 0 {
		return a
	}
	seen := map[*havoc]bool{}
	var out []*havoc
	for _, x := range a {
		if !seen[x] {
			seen[x] = true
			out = append(out, x)
		}
	}
	for _, x := range b {
		if !seen[x] {
			seen[x] = true
			out = append(out, x)
		}
	}
	return out
}

// mergeStates joins states arriving over edges with mutually exclusive
// conditions.
func (fv *FnVC) mergeStates(conds []string, sts []*State) *State {
	if len(sts) == 1 {
		s := sts[0].clone()
		s.reach = fv.def("reach", "Bool", conds[0])
		fv.noteAnd(s.reach, conds[0])
		return s
	}
	out := &State{heaps: map[string]*Heap{}}
	out.reach = fv.def("reach", "Bool", or(conds...))
	fv.noteOr(out.reach, conds)
	keys := map[string]bool{}
	for _, s := range sts {
		for k := range s.heaps {
			keys[k] = true
		}
	}
	var ks []string
	for k := range keys {
		ks = append(ks, k)
	}
	sort.Strings(ks)
	for _, k := range ks {
		var hs []*Heap
		same := true
		for _, s := range sts {
			h, ok := s.heaps[k]
			if !ok {
				hi := fv.heapTab[k]
				h = fv.baseHeapObj(hi, s.epoch)
			}
			hs = append(hs, h)
			if h.term != hs[0].term {
				same = false
			}
		}
		if same {
			out.heaps[k] = hs[0]
			continue
		}
		t := hs[len(hs)-1].term
		hv := hs[len(hs)-1].havocs
		for i := len(hs) - 2; i >= 0; i-- {
			t = ite(conds[i], hs[i].term, t)
			hv = mergeHavocs(hs[i].havocs, hv)
		}
		nm := fv.defAlways(hs[0].info.name, fv.arrSort(hs[0].info), t)
		out.heaps[k] = &Heap{term: nm, info: hs[0].info, havocs: hv}
	}
	a := sts[len(sts)-1].alloc
	for i := len(sts) - 2; i >= 0; i-- {
		a = ite(conds[i], sts[i].alloc, a)
	}
	out.alloc = fv.def("alloc", "Int", a)
	for k, v := range sts[0].tags {
		all := true
		for _, s := range sts[1:] {
			if s.tags[k] != v {
				all = false
			}
		}
		if all {
			if out.tags == nil {
				out.tags = map[string]int{}
			}
			out.tags[k] = v
		}
	}
	var ds []string
	for i, s := range sts {
		if s.dirty != "" && s.dirty != "false" {
			ds = append(ds, and(conds[i], s.dirty))
		}
	}
	if len(ds) > 0 {
		out.dirty = fv.def("dirty", "Bool", or(ds...))
	}
	// ghost call records: merged like values. A record missing on some path gets
	// an unconstrained value there and its presence flag ("has:"+key) is false.
	gkeys := map[string]bool{}
	for _, s := range sts {
		for k := range s.ghost {
			if !strings.HasPrefix(k, "has:") {
				gkeys[k] = true
			}
		}
	}
	var gks []string
	for k := range gkeys {
		gks = append(gks, k)
	}
	sort.Strings(gks)
	for _, k := range gks {
		var vs []Val
		var hs []Val
		var proto *Val
		for _, s := range sts {
			if v, ok := s.ghost[k]; ok {
				proto = &v
				break
			}
		}
		if proto.K == KStruct || proto.K == KTuple {
			continue
		}
		all := true
		for _, s := range sts {
			if v, ok := s.ghost[k]; ok {
				vs = append(vs, v)
				if h, ok := s.ghost["has:"+k]; ok {
					all = false
					hs = append(hs, h)
				} else {
					hs = append(hs, Val{K: KBool, T: "true"})
				}
			} else {
				all = false
				u := *proto
				u.T = fv.decl("nocall", proto.sortOf())
				vs = append(vs, u)
				hs = append(hs, Val{K: KBool, T: "false"})
			}
		}
		if out.ghost == nil {
			out.ghost = map[string]Val{}
		}
		out.ghost[k] = fv.mergeVals(conds, vs)
		if !all {
			out.ghost["has:"+k] = fv.mergeVals(conds, hs)
		}
	}
	out.epoch = sts[0].epoch
	for _, s := range sts {
		if s.epoch != out.epoch {
			fv.epoch++
			me := &mergedEpoch{tag: fv.curTag}
			for i, s2 := range sts {
				me.conds = append(me.conds, conds[i])
				me.parents = append(me.parents, s2.epoch)
			}
			if fv.mergedEpochs == nil {
				fv.mergedEpochs = map[int]*mergedEpoch{}
			}
			fv.mergedEpochs[fv.epoch] = me
			out.epoch = fv.epoch
			break
		}
	}
	return out
}

// ---------------------------------------------------------------------------
// typed loads / stores
// ---------------------------------------------------------------------------

func lfield(loc string, i int) string { return fmt.Sprintf("(LField %s %d)", loc, i) }
func lelem(loc, idx string) string    { return "(LElem " + loc + " " + idx + ")" }

func leafKey(t types.Type) string { return canonType(t) }

// zeroVal returns the zero value of a Go type.
func (fv *FnVC) zeroVal(t types.Type) Val {
	k, w, srt := kindOf(t)
	v := Val{K: k, W: w, Sort: srt, Typ: t}
	switch k {
	case KBV:
		v.T = bvConst(w, 0)
	case KBool:
		v.T = "false"
	case KFP:
		v.T = "(_ +zero " + fpSort(w)[len("(_ FloatingPoint "):]
	case KStr:
		v.T = "s_empty"
	case KLoc:
		v.T = "LNil"
	case KSlice:
		v.T = "nilslice"
	case KIface:
		v.T = "niliface"
	case KOpaque:
		v.T = fv.zeroOpaque(srt)
	case KStruct:
		switch u := types.Unalias(t).Underlying().(type) {
		case *types.Struct:
			for i := 0; i < u.NumFields(); i++ {
				v.Fs = append(v.Fs, fv.zeroVal(u.Field(i).Type()))
			}
		case *types.Array:
			if u.Len() > 64 {
				fv.outOfSubset(fmt.Sprintf("array value of length %d", u.Len()))
				return v
			}
			for i := int64(0); i < u.Len(); i++ {
				v.Fs = append(v.Fs, fv.zeroVal(u.Elem()))
			}
		}
	}
	return v
}

func (fv *FnVC) zeroOpaque(srt string) string {
	n := "zero_" + srt
	if !fv.ufDecl[n] {
		fv.ufDecl[n] = true
		fv.emitGlobal("(declare-const " + n + " " + srt + ")")
	}
	return n
}

// load reads a value of Go type t stored at loc.
func (fv *FnVC) load(st *State, loc string, t types.Type) Val {
	k, w, srt := kindOf(t)
	v := Val{K: k, W: w, Sort: srt, Typ: t}
	if k == KStruct {
		switch u := types.Unalias(t).Underlying().(type) {
		case *types.Struct:
			for i := 0; i < u.NumFields(); i++ {
				v.Fs = append(v.Fs, fv.load(st, lfield(loc, i), u.Field(i).Type()))
			}
		case *types.Array:
			if u.Len() > 64 {
				fv.outOfSubset(fmt.Sprintf("load of array value of length %d", u.Len()))
				return v
			}
			for i := int64(0); i < u.Len(); i++ {
				v.Fs = append(v.Fs, fv.load(st, lelem(loc, bv64(i)), u.Elem()))
			}
		}
		return v
	}
	h := fv.heapOf(st, leafKey(t), v.sortOf())
	v.T = fv.def("ld", v.sortOf(), fv.loadRaw(h, loc))
	fv.assumeWF(st, v)
	if v.K == KIface && (strings.HasPrefix(loc, "(LElem ") || fv.elemLocs[loc]) && fv.boundDepth == 0 && canonType(t) == modPath+".Object" && !fv.nilableLocs[loc] {
		// input assumption: in the state at function entry, Object values held
		// in arrays are never Go nil (stated about the entry heap only, so it
		// cannot contradict later writes)
		fv.assume("true", not(eq("(itag (select "+h.info.name+"_0 "+loc+"))", "0")))
		fv.note("assumed on the entry state: elements of []Object containers are non-nil Objects")
	}
	return v
}

// assumeWF states representation facts about a value obtained from memory or
// from the caller: allocated-before-now, slice header sanity, nil interface
// canonical form, string length non-negative.
func (fv *FnVC) assumeWF(st *State, v Val) {
	if fv.boundDepth > 0 {
		return
	}
	g := st.reach
	switch v.K {
	case KLoc:
		fv.assume(g, "(< (root "+v.T+") "+st.alloc+")")
		fv.assumePtrType(g, v)
	case KSlice:
		fv.assume(g, and("(< (root (sarr "+v.T+")) "+st.alloc+")",
			"(bvsle #x0000000000000000 (soff "+v.T+"))", "(bvsle #x0000000000000000 (slen "+v.T+"))",
			"(bvsle (slen "+v.T+") (scap "+v.T+"))", "(bvslt (scap "+v.T+") #x0000400000000000)",
			"(bvslt (soff "+v.T+") #x0000400000000000)",
			"(=> (= (sarr "+v.T+") LNil) (= "+v.T+" nilslice))"))
	case KIface:
		fv.assume(g, and("(< (root (idat "+v.T+")) "+st.alloc+")", "(>= (itag "+v.T+") 0)",
			"(= (= (itag "+v.T+") 0) (= (idat "+v.T+") LNil))"))
		fv.assumeImpl(g, v)
	case KStr:
		fv.assume(g, and("(bvsle #x0000000000000000 (s_len "+v.T+"))", "(bvslt (s_len "+v.T+") #x0000400000000000)"))
	case KStruct, KTuple:
		for _, f := range v.Fs {
			fv.assumeWF(st, f)
		}
	}
}

// store writes a value of Go type t at loc.
func (fv *FnVC) store(st *State, loc string, t types.Type, v Val) {
	k, _, _ := kindOf(t)
	if k == KStruct {
		switch u := types.Unalias(t).Underlying().(type) {
		case *types.Struct:
			for i := 0; i < u.NumFields(); i++ {
				if i < len(v.Fs) {
					fv.store(st, lfield(loc, i), u.Field(i).Type(), v.Fs[i])
				}
			}
		case *types.Array:
			for i := int64(0); i < u.Len() && int(i) < len(v.Fs); i++ {
				fv.store(st, lelem(loc, bv64(i)), u.Elem(), v.Fs[i])
			}
		}
		return
	}
	fv.storeRaw(st, leafKey(t), v.sortOf(), loc, v.T)
}

// zeroInit writes the zero value of t at loc (new allocation).
func (fv *FnVC) zeroInit(st *State, loc string, t types.Type) {
	if a, ok := types.Unalias(t).Underlying().(*types.Array); ok {
		if a.Len() > 64 {
			fv.note("large array allocation: contents left unconstrained")
			return
		}
		for i := int64(0); i < a.Len(); i++ {
			fv.zeroInit(st, lelem(loc, bv64(i)), a.Elem())
		}
		return
	}
	if s, ok := types.Unalias(t).Underlying().(*types.Struct); ok {
		if _, opq := isOpaque(t); !opq {
			for i := 0; i < s.NumFields(); i++ {
				fv.zeroInit(st, lfield(loc, i), s.Field(i).Type())
			}
			return
		}
	}
	fv.store(st, loc, t, fv.zeroVal(t))
}

// newObject allocates a fresh root location.
func (fv *FnVC) newObject(st *State) string {
	loc := fv.def("new", "Loc", "(LRoot "+st.alloc+")")
	st.alloc = fv.def("alloc", "Int", "(+ "+st.alloc+" 1)")
	return loc
}

// ---------------------------------------------------------------------------
// constants
// ---------------------------------------------------------------------------

func (fv *FnVC) strLit(s string) string {
	if s == "" {
		return "s_empty"
	}
	if n, ok := fv.strLits[s]; ok {
		return n
	}
	n := fmt.Sprintf("lit_%d", len(fv.strLits))
	fv.strLits[s] = n
	fv.emitGlobal(fmt.Sprintf("(declare-const %s Str) ; %q", n, trunc(s, 40)))
	fv.emitGlobal(fmt.Sprintf("(assert (= (s_len %s) %s))", n, bv64(int64(len(s)))))
	if len(s) <= 8 {
		for i := 0; i < len(s); i++ {
			fv.emitGlobal(fmt.Sprintf("(assert (= (s_at %s %s) %s))", n, bv64(int64(i)), bvConst(8, uint64(s[i]))))
		}
	}
	if strings.Contains(s, "%") {
		// which operand a format literal wraps is read off the literal's text
		fv.emitGlobal(fmt.Sprintf("(assert (= (spec_fmt_wraps0 %s) %v))", n, firstVerbIsW(s)))
	}
	// distinct from all earlier literals
	var names []string
	for _, o := range fv.strLits {
		names = append(names, o)
	}
	sort.Strings(names)
	if len(names) > 1 {
		for _, o := range names {
			if o != n {
				fv.emitGlobal(fmt.Sprintf("(assert (not (= %s %s)))", n, o))
			}
		}
	}
	fv.emitGlobal(fmt.Sprintf("(assert (not (= %s s_empty)))", n))
	return n
}

func trunc(s string, n int) string {
	if len(s) > n {
		return s[:n] + "…"
	}
	return s
}

func fpLit(w int, f float64) string {
	if w == 32 {
		return fmt.Sprintf("((_ to_fp 8 24) #x%08x)", math.Float32bits(float32(f)))
	}
	return fmt.Sprintf("((_ to_fp 11 53) #x%016x)", math.Float64bits(f))
}

func (fv *FnVC) globalLoc(g ssa.Value) string {
	id, ok := fv.gids[g]
	if !ok {
		id = 1000 + len(fv.gids)
		fv.gids[g] = id
	}
	return fmt.Sprintf("(LRoot (- %d))", id)
}

// declUF declares an uninterpreted function once.
func (fv *FnVC) declUF(name string, args []string, res string) {
	if fv.ufDecl[name] {
		return
	}
	fv.ufDecl[name] = true
	fv.emitGlobal("(declare-fun " + name + " (" + strings.Join(args, " ") + ") " + res + ")")
}

// assumeImpl records that the dynamic type of an interface value implements
// its static interface type.
func (fv *FnVC) assumeImpl(g string, v Val) {
	if v.Typ == nil {
		return
	}
	it, ok := types.Unalias(v.Typ).Underlying().(*types.Interface)
	if !ok || it.NumMethods() == 0 {
		return
	}
	p := fv.implPred(v.Typ)
	fv.assume(g, "(or (= (itag "+v.T+") 0) ("+p+" (itag "+v.T+")))")
}

// implPred returns the name of the predicate "tag implements interface t",
// declared with its value on every concrete type known so far.
func (fv *FnVC) implPred(t types.Type) string {
	name := "impl_" + sanitize(canonType(t))
	if !fv.implDecl[name] {
		fv.implDecl[name] = true
		fv.implTypes[name] = t
		fv.emitGlobal("(declare-fun " + name + " (Int) Bool)")
	}
	return name
}

// assumePtrType: a non-nil pointer to an aggregate (struct / array) type
// addresses a location of exactly that type, so pointers to different
// aggregate types never alias (Go type safety; no unsafe in the module).
func (fv *FnVC) assumePtrType(g string, v Val) {
	if v.Typ == nil || fv.boundDepth > 0 {
		return
	}
	pt, ok := types.Unalias(v.Typ).Underlying().(*types.Pointer)
	if !ok {
		return
	}
	switch types.Unalias(pt.Elem()).Underlying().(type) {
	case *types.Struct, *types.Array:
	default:
		return
	}
	if _, opq := isOpaque(pt.Elem()); opq {
		return
	}
	id := fv.eng.tagOf(pt.Elem())
	fv.assume(g, or(eq(v.T, "LNil"), eq("(ltype "+v.T+")", fmt.Sprint(id))))
}

// locBase strips field / element selectors from a location term.
func locBase(loc string) string {
	for {
		if strings.HasPrefix(loc, "(LField ") || strings.HasPrefix(loc, "(LElem ") {
			// first argument
			i := strings.Index(loc, " ") + 1
			if loc[i] != '(' {
				j := strings.Index(loc[i:], " ")
				loc = loc[i : i+j]
				continue
			}
			d := 0
			for j := i; j < len(loc); j++ {
				if loc[j] == '(' {
					d++
				} else if loc[j] == ')' {
					d--
					if d == 0 {
						loc = loc[i : j+1]
						break
					}
				}
			}
			continue
		}
		return loc
	}
}

// relevant: for a havoc that keeps only non-escaping local cells and
// immutable fields, the frame instance at loc says something only if loc is
// (syntactically) inside a local cell or may be an immutable field.
func (pe *privEpoch) relevant(fv *FnVC, key string) func(string) bool {
	if !pe.localOnly {
		return nil
	}
	roots := map[string]bool{}
	for _, r := range pe.roots {
		roots[r] = true
	}
	var idxs []string
	for _, fi := range fv.eng.immutables {
		if fi.LeafKey == key {
			idxs = append(idxs, fmt.Sprintf(" %d)", fi.Index))
		}
	}
	return func(loc string) bool {
		if roots[locBase(loc)] {
			return true
		}
		if strings.HasPrefix(loc, "(LField ") {
			for _, sfx := range idxs {
				if strings.HasSuffix(loc, sfx) {
					return true
				}
			}
			return false
		}
		// named or computed location: cannot tell
		return !strings.HasPrefix(loc, "(LElem ")
	}
}

// visibleLocalRoots: local cells allocated on a path to the current point.
func (fv *FnVC) visibleLocalRoots() []string {
	var out []string
	for i, r := range fv.localRoots {
		if fv.visible(fv.localRootTag[i]) {
			out = append(out, r)
		}
	}
	return out
}

// firstVerbIsW: the first formatting verb of a fmt format string is %w.
func firstVerbIsW(f string) bool {
	for i := 0; i < len(f); i++ {
		if f[i] != '%' {
			continue
		}
		i++
		if i < len(f) && f[i] == '%' {
			continue
		}
		// flags, width, precision, argument indexes
		for i < len(f) && strings.IndexByte("+-# 0123456789.*[]", f[i]) >= 0 {
			if f[i] == '[' {
				return false // explicit argument indexes: not modelled
			}
			i++
		}
		return i < len(f) && f[i] == 'w'
	}
	return false
}

// path-condition implication, read off how the conditions were built
func (fv *FnVC) noteAnd(name string, parents ...string) {
	if fv.reachAnd == nil {
		fv.reachAnd = map[string][]string{}
	}
	for _, p := range parents {
		if p != name {
			fv.reachAnd[name] = append(fv.reachAnd[name], p)
		}
	}
}

func (fv *FnVC) noteOr(name string, ds []string) {
	if fv.reachOr == nil {
		fv.reachOr = map[string][]string{}
	}
	if _, ok := fv.reachOr[name]; !ok {
		fv.reachOr[name] = append([]string(nil), ds...)
	}
}

func (fv *FnVC) reachImplies(a, b string) bool {
	return fv.reachImplies1(a, b, map[string]bool{})
}

func (fv *FnVC) reachImplies1(a, b string, seen map[string]bool) bool {
	if a == b || b == "true" || a == "false" {
		return true
	}
	if seen[a] {
		return false
	}
	seen[a] = true
	for _, p := range fv.reachAnd[a] {
		if fv.reachImplies1(p, b, seen) {
			return true
		}
	}
	if ds := fv.reachOr[a]; len(ds) > 0 {
		for _, d := range ds {
			if !fv.reachImplies1(d, b, map[string]bool{}) {
				return false
			}
		}
		return true
	}
	return false
}
