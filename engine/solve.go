package main

import (
	"runtime"
	"crypto/sha256"
	"encoding/hex"
	"context"
	"fmt"
	"os"
	"os/exec"
	"path/filepath"
	"strings"
	"sync"
	"time"
)

// SolveResult is the outcome of discharging one obligation.
type SolveResult struct {
	Verdict string  // unsat | sat | unknown | timeout | error
	Solver  string  // solver that produced the verdict
	Seconds float64 // wall time of the deciding call
	Total   float64 // wall time of all calls
	Model   string
	File    string
	Output  string
	Tried   []string
}

type solverSpec struct {
	name string
	args func(file string, timeout int) []string
}

var solvers = []solverSpec{
	{"z3-new", func(f string, t int) []string { return []string{"z3-new", fmt.Sprintf("-T:%d", t), f} }},
	{"z3", func(f string, t int) []string { return []string{"z3", fmt.Sprintf("-T:%d", t), f} }},
	{"cvc5", func(f string, t int) []string {
		return []string{"cvc5", "--produce-models", fmt.Sprintf("--tlimit=%d", t*1000), f}
	}},
}

func runSolver(s solverSpec, file string, timeout int) (verdict, out string, secs float64) {
	return runSolverCtx(context.Background(), s, file, timeout)
}

// cpuSlots bounds the number of solver processes running at once (one per core), so that racing
// several solvers on one obligation never starves the others of the CPU time their limit assumes.
var cpuSlots = make(chan struct{}, numWorkers())

// numWorkers: one solver process per core, at most 16.
func numWorkers() int {
	n := runtime.NumCPU()
	if n > 16 {
		n = 16
	}
	if n < 2 {
		n = 2
	}
	return n
}

func runSolverCtx(parent context.Context, s solverSpec, file string, timeout int) (verdict, out string, secs float64) {
	select {
	case cpuSlots <- struct{}{}:
	case <-parent.Done():
		return "timeout", "cancelled before start", 0
	}
	defer func() { <-cpuSlots }()
	ctx, cancel := context.WithTimeout(parent, time.Duration(timeout+5)*time.Second)
	defer cancel()
	a := s.args(file, timeout)
	cmd := exec.CommandContext(ctx, a[0], a[1:]...)
	t0 := time.Now()
	b, _ := cmd.CombinedOutput()
	secs = time.Since(t0).Seconds()
	out = string(b)
	first := strings.TrimSpace(strings.SplitN(out, "\n", 2)[0])
	switch first {
	case "unsat", "sat", "unknown", "timeout":
		return first, out, secs
	}
	if ctx.Err() != nil || strings.Contains(out, "timeout") || strings.Contains(out, "interrupted") {
		return "timeout", out, secs
	}
	return "error", out, secs
}

// solve discharges one obligation with the solver portfolio.
func solve(o *Obligation, dir string, timeout int, all bool, wantModel bool) *SolveResult {
	// memo: a query text that was refuted before (same prelude, spec, hypotheses and goal, byte for byte)
	// is not solved again. Only "unsat" is remembered; the memo lives under work/ and may be absent.
	var memoFile string
	if o.raw == "" && o.Kind != "cover" && o.fv != nil && !all && os.Getenv("TGVC_NOMEMO") == "" {
		sum := sha256.Sum256([]byte(o.query()))
		hx := hex.EncodeToString(sum[:])
		memoFile = filepath.Join(filepath.Dir(dir), "memo", hx[:2], hx)
		if b, err := os.ReadFile(memoFile); err == nil && strings.HasPrefix(string(b), "unsat ") {
			return &SolveResult{File: memoFile, Verdict: "unsat", Solver: "memo:" + strings.TrimSpace(strings.TrimPrefix(string(b), "unsat ")), Tried: []string{"memo"}}
		}
	}
	r := solve1(o, dir, timeout, all, wantModel)
	if memoFile != "" && r.Verdict == "unsat" {
		os.MkdirAll(filepath.Dir(memoFile), 0o755)
		os.WriteFile(memoFile, []byte("unsat "+strings.SplitN(r.Solver, " ", 2)[0]+"\n"), 0o644)
	}
	return r
}

func solve1(o *Obligation, dir string, timeout int, all bool, wantModel bool) *SolveResult {
	// first a reduced query (hypotheses within 2 steps of the goal): only an
	// "unsat" answer is used; anything else falls back to the full query
	if o.raw == "" && o.Kind != "cover" && o.fv != nil && !all {
		q := o.queryLevel(2)
		file := filepath.Join(dir, sanitizeFile(o.ID)+".red.smt2")
		os.WriteFile(file, []byte(q), 0o644)
		t := timeout / 6
		if t < 5 {
			t = 5
		}
		v, _, secs := runSolver(solvers[0], file, t)
		if v == "unsat" {
			return &SolveResult{File: file, Verdict: "unsat", Solver: solvers[0].name + " (reduced hypotheses)", Seconds: secs, Total: secs, Tried: []string{fmt.Sprintf("%s:reduced:%s:%.2fs", solvers[0].name, v, secs)}}
		}
	}
	q := o.query()
	if wantModel {
		q += "(get-model)\n"
	}
	file := filepath.Join(dir, sanitizeFile(o.ID)+".smt2")
	os.WriteFile(file, []byte(q), 0o644)
	res := &SolveResult{File: file, Verdict: "unknown"}
	crossCheck := func(res *SolveResult) *SolveResult {
		// thorough tier: the solvers that did not decide get a short second opinion; a definite
		// answer that contradicts the verdict is reported as an error (never as a pass)
		if !all || (res.Verdict != "unsat" && res.Verdict != "sat") {
			return res
		}
		for _, s := range solvers {
			if s.name == res.Solver {
				continue
			}
			v, _, secs := runSolver(s, file, 20)
			res.Total += secs
			res.Tried = append(res.Tried, fmt.Sprintf("%s:cross:%s:%.2fs", s.name, v, secs))
			if (v == "unsat" || v == "sat") && v != res.Verdict {
				res.Verdict = "error"
				res.Output = "solver disagreement: " + strings.Join(res.Tried, " ")
				return res
			}
		}
		return res
	}
	// stage 1: the first solver alone for a short while (nearly everything ends here)
	t1 := timeout
	if t1 > 30 && o.exclude == nil {
		t1 = 30
	}
	v, out, secs := runSolver(solvers[0], file, t1)
	res.Total += secs
	res.Tried = append(res.Tried, fmt.Sprintf("%s:%s:%.2fs", solvers[0].name, v, secs))
	if v == "unsat" || v == "sat" {
		res.Verdict, res.Solver, res.Seconds = v, solvers[0].name, secs
		if v == "sat" {
			res.Model = out
		}
		return crossCheck(res)
	}
	res.Verdict, res.Output = v, trunc(out, 2000)
	if o.exclude != nil || t1 == timeout {
		return res // a batch is only an accelerator: members are solved one by one when it is not refuted at once
	}
	// stage 2: all solvers race with the full limit; the first definite answer wins
	type ans struct {
		name, v, out string
		secs         float64
	}
	ch := make(chan ans, len(solvers))
	ctx, cancel := context.WithCancel(context.Background())
	for _, sv := range solvers {
		go func(sv solverSpec) {
			v, out, secs := runSolverCtx(ctx, sv, file, timeout)
			ch <- ans{sv.name, v, out, secs}
		}(sv)
	}
	for range solvers {
		a := <-ch
		res.Tried = append(res.Tried, fmt.Sprintf("%s:%s:%.2fs", a.name, a.v, a.secs))
		if a.secs > res.Total {
			res.Total = a.secs + secs
		}
		if a.v == "unsat" || a.v == "sat" {
			res.Verdict, res.Solver, res.Seconds = a.v, a.name, a.secs
			if a.v == "sat" {
				res.Model = a.out
				if a.name == "cvc5" || !strings.Contains(a.out, "(define-fun") {
					// models are read in z3's format: ask the first solver again if it can confirm
				}
			}
			cancel()
			return crossCheck(res)
		}
		if res.Verdict != "timeout" {
			res.Verdict, res.Output = a.v, trunc(a.out, 2000)
		}
	}
	cancel()
	return res
}

func sanitizeFile(s string) string {
	r := strings.NewReplacer("/", "_", "(", "", ")", "", "*", "p", " ", "_", "#", "-", ":", "_", "$", "_", "[", "_", "]", "_", "@", "_at_", ",", "_")
	s = r.Replace(s)
	if len(s) > 180 {
		s = s[:180]
	}
	return s
}

// solveAll runs obligations in parallel. Safety obligations of one basic
// block are first tried as one conjunction (they share their context); only
// when that batch is not refuted are they solved one by one.
func solveAll(obls []*Obligation, dir string, timeout int, all bool, workers int) {
	os.MkdirAll(dir, 0o755)
	type job struct {
		members []*Obligation
	}
	var jobs []job
	batches := map[string][]*Obligation{}
	var order []string
	for _, o := range obls {
		if (o.Kind == "safety" || o.Kind == "step") && o.fv != nil && o.raw == "" {
			k := fmt.Sprintf("%p/%d/%s", o.fv, o.tag, o.Kind)
			if _, ok := batches[k]; !ok {
				order = append(order, k)
			}
			batches[k] = append(batches[k], o)
			continue
		}
		jobs = append(jobs, job{[]*Obligation{o}})
	}
	for _, k := range order {
		jobs = append(jobs, job{batches[k]})
	}
	var wg sync.WaitGroup
	ch := make(chan job)
	for i := 0; i < workers; i++ {
		wg.Add(1)
		go func() {
			defer wg.Done()
			for j := range ch {
				if len(j.members) > 1 {
					// batch: the last member's context contains all earlier ones
					last := j.members[len(j.members)-1]
					var goals []string
					for _, m := range j.members {
						goals = append(goals, implies(m.guard, m.goal))
					}
					ex := map[*Obligation]bool{}
					for _, m := range j.members {
						ex[m] = true
					}
					from := j.members[0].nlines
					for _, m := range j.members {
						if m.nlines < from {
							from = m.nlines
						}
					}
					b := &Obligation{ID: last.ID + "+batch", Kind: last.Kind, batchFrom: from, tag: last.tag, nlines: last.nlines, guard: "true", goal: and(goals...), fv: last.fv, exclude: ex}
					bt := timeout / 3
					if bt < 10 {
						bt = 10
					}
					r := solve(b, dir, bt, all, false)
					if r.Verdict == "unsat" {
						for _, m := range j.members {
							rr := *r
							rr.Seconds = r.Seconds / float64(len(j.members))
							rr.Total = r.Total / float64(len(j.members))
							m.Result = &rr
						}
						continue
					}
				}
				for _, m := range j.members {
					m.Result = solve(m, dir, timeout, all, true)
				}
			}
		}()
	}
	for _, j := range jobs {
		ch <- j
	}
	close(ch)
	wg.Wait()
	// second chance: an obligation that ran out of time while the machine was saturated is tried again
	// on a quiet machine (two at a time, all solvers racing) with twice the limit. Only a definite
	// answer ends the matter; "sat" answers are never retried.
	var late []*Obligation
	for _, o := range obls {
		if o.Result != nil && o.Kind != "cover" && (o.Result.Verdict == "timeout" || o.Result.Verdict == "unknown") {
			late = append(late, o)
		}
	}
	if len(late) > 0 && len(late) <= 40 {
		sem := make(chan struct{}, 2)
		var wg2 sync.WaitGroup
		for _, o := range late {
			wg2.Add(1)
			sem <- struct{}{}
			go func(o *Obligation) {
				defer wg2.Done()
				defer func() { <-sem }()
				first := o.Result
				r := solve(o, dir, 2*timeout, all, true)
				r.Tried = append(append([]string{"first attempt: " + first.Verdict}, first.Tried...), r.Tried...)
				r.Total += first.Total
				o.Result = r
			}(o)
		}
		wg2.Wait()
	}
}
