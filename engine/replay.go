package main

import (
	"encoding/json"
	"fmt"
	"go/types"
	"math"
	"os"
	"os/exec"
	"path/filepath"
	"regexp"
	"strconv"
	"strings"

	"golang.org/x/tools/go/ssa"
)

// Replay of a counterexample against the real code.
//
// Scope: clause obligations (post / refines) of functions and methods whose
// receiver, parameters and results are machine scalars, tokens, errors, or
// Tengo scalar objects (*Int, *Float, *Char, *Bool, *Undefined, also behind the
// Object interface). For these the solver model determines the whole input.
//
//  1. the failing query is re-asked for the value of every input term;
//  2. a Go test that builds these inputs, calls the real function and prints
//     the outputs is injected with `go test -overlay` (the repository is not
//     written);
//  3. the observed outputs are pinned onto the query's symbolic outputs: if
//     the query is still satisfiable, the clause is false for these inputs
//     and the outputs of the real code, and the violation is replayed.
//
// Anything outside the scope (strings, containers, compiler / VM state) is
// reported without a failing input; the model stays attached.

type rInput struct {
	name   string // Go variable name in the harness
	goExpr string // Go expression building the value
	decl   string // Go type for the variable declaration ("" = :=)
	pins   []string
	isObj  bool // value is a Tengo object (identity matters)
	term   string
	kind   int
}

var scalarObjs = map[string]string{"Int": "int64", "Float": "float64", "Char": "rune", "Bool": "bool", "Undefined": ""}

func tryReplay(e *Engine, o *Obligation, rp *Replay) {
	rp.Replayed = false
	if o.fv == nil || o.post == nil || (o.Kind != "post" && o.Kind != "refines") {
		rp.Note = "counterexample model attached; replay covers clause obligations of scalar-valued functions only (kind " + o.Kind + ")"
		return
	}
	fv := o.fv
	f := fv.top
	if f.Pkg == nil || len(f.FreeVars) > 0 {
		rp.Note = "counterexample model attached; no replay harness for closures"
		return
	}
	base := strings.SplitN(o.query(), "(check-sat)", 2)[0]
	// ---- 1. probe the model for the inputs
	type probe struct {
		term string
		val  string
	}
	var probes []*probe
	ask := func(t string) *probe {
		p := &probe{term: t}
		probes = append(probes, p)
		return p
	}
	type inSpec struct {
		p      *ssa.Parameter
		v      Val
		tag    *probe            // interface: dynamic type tag
		self   *probe            // scalar / whole value
		fields map[string]*probe // per candidate object type: its Value field
	}
	var ins []*inSpec
	fieldTerm := func(ptr string, tname string) (string, bool) {
		obj := f.Pkg.Pkg.Scope().Lookup(tname)
		if obj == nil {
			return "", false
		}
		st, ok := obj.Type().Underlying().(*types.Struct)
		if !ok {
			return "", false
		}
		for i := 0; i < st.NumFields(); i++ {
			if n := st.Field(i).Name(); n == "Value" || n == "value" {
				k, w, srt := kindOf(st.Field(i).Type())
				if k == KStruct || k == KTuple || k == KStr || k == KSlice {
					return "", false
				}
				h := fv.heapOf(fv.entry, leafKey(st.Field(i).Type()), Val{K: k, W: w, Sort: srt}.sortOf())
				return "(select " + h.term + " " + lfield(ptr, i) + ")", true
			}
		}
		return "", false
	}
	for i, p := range f.Params {
		if i >= len(fv.paramVals) {
			rp.Note = "no replay harness for this function shape"
			return
		}
		v := fv.paramVals[i]
		is := &inSpec{p: p, v: v, fields: map[string]*probe{}}
		switch v.K {
		case KBV, KBool, KFP:
			is.self = ask(v.T)
		case KLoc:
			pt, ok := types.Unalias(p.Type()).Underlying().(*types.Pointer)
			nt, ok2 := pt.Elem().(*types.Named)
			if !ok || !ok2 {
				rp.Note = "no replay harness for parameter " + p.Name() + " of type " + p.Type().String()
				return
			}
			if _, isScalar := scalarObjs[nt.Obj().Name()]; !isScalar || nt.Obj().Pkg() != f.Pkg.Pkg {
				rp.Note = "no replay harness for parameter " + p.Name() + " of type " + p.Type().String()
				return
			}
			if ft, ok := fieldTerm(v.T, nt.Obj().Name()); ok {
				is.fields[nt.Obj().Name()] = ask(ft)
			}
		case KIface:
			if canonType(p.Type()) != modPath+".Object" {
				rp.Note = "no replay harness for parameter " + p.Name() + " of type " + p.Type().String()
				return
			}
			is.tag = ask("(itag " + v.T + ")")
			for tn := range scalarObjs {
				if ft, ok := fieldTerm("(idat "+v.T+")", tn); ok {
					is.fields[tn] = ask(ft)
				}
			}
		default:
			rp.Note = "no replay harness for parameter " + p.Name() + " of type " + p.Type().String()
			return
		}
		ins = append(ins, is)
	}
	work := filepath.Join(filepath.Dir(fv.eng.specDir), "work", "replay")
	os.MkdirAll(work, 0o755)
	q := base + "(check-sat)\n"
	for _, p := range probes {
		q += "(get-value (" + p.term + "))\n"
	}
	pf := filepath.Join(work, sanitizeFile(o.ID)+".probe.smt2")
	os.WriteFile(pf, []byte(q), 0o644)
	verdict, out, _ := runSolver(solvers[0], pf, 60)
	if verdict != "sat" {
		rp.Note = "counterexample model attached; the probe query did not return a model (" + verdict + ")"
		return
	}
	vals := parseGetValues(out)
	if len(vals) != len(probes) {
		rp.Note = fmt.Sprintf("counterexample model attached; could not read the model back (%d of %d values)", len(vals), len(probes))
		return
	}
	for i, p := range probes {
		p.val = vals[i]
	}
	// ---- 2. build the harness
	var b strings.Builder
	witness := map[string]string{}
	var inputs []*rInput
	imports := map[string]bool{"fmt": true, "testing": true}
	for i, is := range ins {
		ri := &rInput{name: fmt.Sprintf("in%d", i), term: is.v.T, kind: is.v.K}
		switch is.v.K {
		case KBV, KBool, KFP:
			ge, ok := goScalar(is.self.val, is.p.Type(), f.Pkg.Pkg, imports)
			if !ok {
				rp.Note = "could not turn the model value of " + is.p.Name() + " into a Go value: " + is.self.val
				return
			}
			ri.goExpr = ge
			ri.pins = append(ri.pins, eq(is.self.term, is.self.val))
		case KLoc, KIface:
			tn := ""
			if is.v.K == KLoc {
				tn = types.Unalias(is.p.Type()).Underlying().(*types.Pointer).Elem().(*types.Named).Obj().Name()
			} else {
				tag, err := strconv.Atoi(strings.TrimSpace(is.tag.val))
				if err != nil || tag < 1 || tag > len(fv.eng.tagTypes) {
					rp.Note = "counterexample uses a dynamic type outside the replay scope (tag " + is.tag.val + ")"
					return
				}
				tt := fv.eng.tagTypes[tag-1]
				pt, ok := types.Unalias(tt).Underlying().(*types.Pointer)
				if !ok {
					rp.Note = "counterexample uses dynamic type " + tt.String() + " (outside the replay scope)"
					return
				}
				nt, ok := pt.Elem().(*types.Named)
				if !ok || nt.Obj().Pkg() != f.Pkg.Pkg {
					rp.Note = "counterexample uses dynamic type " + tt.String() + " (outside the replay scope)"
					return
				}
				tn = nt.Obj().Name()
				if _, ok := scalarObjs[tn]; !ok {
					rp.Note = "counterexample uses dynamic type *" + tn + " (outside the replay scope: scalar objects only)"
					return
				}
				ri.pins = append(ri.pins, eq(is.tag.term, is.tag.val))
			}
			ri.isObj = true
			switch tn {
			case "Undefined":
				ri.goExpr = "UndefinedValue"
			default:
				fp := is.fields[tn]
				if fp == nil {
					rp.Note = "no Value field probe for *" + tn
					return
				}
				obj := f.Pkg.Pkg.Scope().Lookup(tn).Type().Underlying().(*types.Struct)
				fname, ftype := "", types.Type(nil)
				for k := 0; k < obj.NumFields(); k++ {
					if n := obj.Field(k).Name(); n == "Value" || n == "value" {
						fname, ftype = n, obj.Field(k).Type()
					}
				}
				ge, ok := goScalar(fp.val, ftype, f.Pkg.Pkg, imports)
				if !ok {
					rp.Note = "could not turn the model value of " + is.p.Name() + "." + fname + " into a Go value: " + fp.val
					return
				}
				ri.goExpr = fmt.Sprintf("&%s{%s: %s}", tn, fname, ge)
				if tn == "Bool" {
					// the engine's Bool objects are the two sentinels
					ri.goExpr = "map[bool]*Bool{true: TrueValue, false: FalseValue}[" + ge + "]"
				}
				ri.pins = append(ri.pins, eq(fp.term, fp.val))
			}
			if is.v.K == KIface {
				ri.decl = "Object"
			}
		}
		witness[is.p.Name()] = ri.goExpr
		inputs = append(inputs, ri)
	}
	rp.Witness = witness
	sig := f.Signature
	call := ""
	args := []string{}
	start := 0
	if sig.Recv() != nil {
		start = 1
	}
	for i := start; i < len(inputs); i++ {
		a := inputs[i].name
		if sig.Variadic() && i == len(inputs)-1 {
			rp.Note = "no replay harness for variadic functions"
			return
		}
		args = append(args, a)
	}
	if sig.Recv() != nil {
		call = fmt.Sprintf("in0.%s(%s)", f.Name(), strings.Join(args, ", "))
	} else {
		call = fmt.Sprintf("%s(%s)", f.Name(), strings.Join(args, ", "))
	}
	nres := sig.Results().Len()
	var lhs []string
	for i := 0; i < nres; i++ {
		lhs = append(lhs, fmt.Sprintf("r%d", i))
	}
	fmt.Fprintf(&b, "package %s\n\nimport (\n", f.Pkg.Pkg.Name())
	body := &strings.Builder{}
	for _, ri := range inputs {
		if ri.decl != "" {
			fmt.Fprintf(body, "\tvar %s %s = %s\n", ri.name, ri.decl, ri.goExpr)
		} else {
			fmt.Fprintf(body, "\t%s := %s\n", ri.name, ri.goExpr)
		}
	}
	fmt.Fprintf(body, "\tdefer func() {\n\t\tif p := recover(); p != nil {\n\t\t\tfmt.Printf(\"TGVC panic %%v\\n\", p)\n\t\t}\n\t}()\n")
	if nres > 0 {
		fmt.Fprintf(body, "\t%s := %s\n", strings.Join(lhs, ", "), call)
	} else {
		fmt.Fprintf(body, "\t%s\n", call)
	}
	var objNames []string
	for _, ri := range inputs {
		if ri.isObj {
			objNames = append(objNames, ri.name)
		}
	}
	for i := 0; i < nres; i++ {
		fmt.Fprintf(body, "\tfmt.Printf(\"TGVC r%d %%s\\n\", tgvcDescribe(r%d, []interface{}{%s}))\n", i, i, strings.Join(objNames, ", "))
	}
	for _, ri := range inputs {
		_ = ri
	}
	imports["math"] = true
	var imps []string
	for k := range imports {
		imps = append(imps, k)
	}
	sortStrings(imps)
	for _, k := range imps {
		fmt.Fprintf(&b, "\t%q\n", k)
	}
	b.WriteString(")\n\nvar _ = math.Float64bits\n\n")
	b.WriteString(describeSrc(f.Pkg.Pkg.Path() == modPath))
	fmt.Fprintf(&b, "\nfunc TestTgvcReplay(t *testing.T) {\n%s}\n", body.String())
	rp.Harness = b.String()
	// ---- run it against the real package
	pkgDir := filepath.Join(fv.eng.repo, strings.TrimPrefix(strings.TrimPrefix(f.Pkg.Pkg.Path(), modPath), "/"))
	hfile := filepath.Join(work, sanitizeFile(o.ID)+"_test.go")
	os.WriteFile(hfile, []byte(rp.Harness), 0o644)
	ov := map[string]map[string]string{"Replace": {filepath.Join(pkgDir, "zz_tgvc_replay_test.go"): hfile}}
	ovb, _ := json.Marshal(ov)
	ovf := filepath.Join(work, sanitizeFile(o.ID)+".overlay.json")
	os.WriteFile(ovf, ovb, 0o644)
	cmd := exec.Command("go", "test", "-overlay", ovf, "-vet=off", "-v", "-count=1", "-timeout", "60s", "-run", "^TestTgvcReplay$", ".")
	cmd.Dir = pkgDir
	cmd.Env = append(os.Environ(), "GOFLAGS=-mod=mod", "GOPROXY=off", "GOSUMDB=off", "GOTOOLCHAIN=local")
	outb, _ := cmd.CombinedOutput()
	var obs []string
	for _, l := range strings.Split(string(outb), "\n") {
		if strings.HasPrefix(l, "TGVC ") {
			obs = append(obs, strings.TrimPrefix(l, "TGVC "))
		}
	}
	rp.Observed = strings.Join(obs, "\n")
	if len(obs) == 0 {
		rp.Note = "the replay harness did not run: " + trunc(string(outb), 600)
		return
	}
	if strings.HasPrefix(obs[0], "panic ") {
		rp.Replayed = true
		rp.Note = "the real code panics on the counterexample input (" + obs[0] + "); the clause cannot hold"
		return
	}
	// ---- 3. pin inputs and observed outputs onto the failing query
	pins := []string{}
	for _, ri := range inputs {
		pins = append(pins, ri.pins...)
	}
	mark := len(fv.lines)
	for i := 0; i < nres && i < len(o.results); i++ {
		var d string
		for _, l := range obs {
			if strings.HasPrefix(l, fmt.Sprintf("r%d ", i)) {
				d = strings.TrimPrefix(l, fmt.Sprintf("r%d ", i))
			}
		}
		ps, ok := pinResult(fv, o, o.results[i], d, inputs, f)
		if !ok {
			rp.Note = "observed output not expressible for the oracle query: " + d
			return
		}
		pins = append(pins, ps...)
	}
	extra := ""
	for _, l := range fv.lines[mark:] {
		extra += l.text + "\n"
	}
	// the goal line is the last assertion of base: keep it last
	gi := strings.LastIndex(base, "(assert (not ")
	q2 := base[:gi] + extra
	for _, p := range pins {
		q2 += "(assert " + p + ")\n"
	}
	q2 += base[gi:] + "(check-sat)\n"
	of := filepath.Join(work, sanitizeFile(o.ID)+".oracle.smt2")
	os.WriteFile(of, []byte(q2), 0o644)
	v2, _, _ := runSolver(solvers[0], of, 60)
	switch v2 {
	case "sat":
		rp.Replayed = true
		rp.Note = "replayed: on this input the real code returns the observed values, for which the clause is false (oracle query " + of + " is satisfiable with inputs and outputs pinned)"
	case "unsat":
		rp.Note = "not replayed: with the real outputs pinned the clause holds for this input (the model does not correspond to a run of the real code)"
	default:
		rp.Note = "not replayed: oracle query gave " + v2
	}
}

// pinResult turns the harness's description of one result into assertions
// over the symbolic result value.
func pinResult(fv *FnVC, o *Obligation, r Val, d string, inputs []*rInput, f *ssa.Function) ([]string, bool) {
	fs := strings.SplitN(d, ":", 2)
	switch r.K {
	case KBool:
		if fs[0] == "bool" && len(fs) == 2 {
			return []string{eq(r.T, fs[1])}, true
		}
	case KBV:
		if fs[0] == "int" && len(fs) == 2 {
			n, err := strconv.ParseInt(fs[1], 10, 64)
			if err == nil {
				return []string{eq(r.T, bvConst(r.W, uint64(n)))}, true
			}
		}
	case KIface:
		switch fs[0] {
		case "nil":
			return []string{eq(r.T, "niliface")}, true
		case "same":
			i, err := strconv.Atoi(fs[1])
			k := -1
			for _, ri := range inputs {
				if ri.isObj {
					k++
					if err == nil && k == i {
						if ri.kind == KIface {
							return []string{eq(r.T, ri.term)}, true
						}
						return []string{eq("(idat "+r.T+")", ri.term), not(eq("(itag "+r.T+")", "0"))}, true
					}
				}
			}
		case "sentinel":
			ce := &cenv{fv: fv, vars: map[string]Val{}, st: o.post, pkg: f.Pkg.Pkg, where: "replay"}
			sv := ce.eval(fs[1])
			if ce.err != nil {
				return nil, false
			}
			if sv.K == KLoc {
				return []string{eq("(idat "+r.T+")", sv.T), not(eq("(itag "+r.T+")", "0"))}, true
			}
			if sv.K == KIface {
				return []string{eq(r.T, sv.T)}, true
			}
		case "obj":
			// obj:<Type>:<value>
			p := strings.SplitN(fs[1], ":", 2)
			tn := p[0]
			obj := f.Pkg.Pkg.Scope().Lookup(tn)
			if obj == nil {
				return nil, false
			}
			tag := fv.eng.tagOf(types.NewPointer(obj.Type()))
			pins := []string{eq("(itag "+r.T+")", fmt.Sprint(tag)), "(>= (root (idat " + r.T + ")) " + fv.allocEntry + ")"}
			st, _ := obj.Type().Underlying().(*types.Struct)
			for i := 0; st != nil && i < st.NumFields(); i++ {
				if n := st.Field(i).Name(); n == "Value" || n == "value" {
					k, w, srt := kindOf(st.Field(i).Type())
					h := fv.heapOf(o.post, leafKey(st.Field(i).Type()), Val{K: k, W: w, Sort: srt}.sortOf())
					sel := "(select " + h.term + " " + lfield("(idat "+r.T+")", i) + ")"
					vt, ok := smtScalar(p[1], k, w)
					if !ok {
						return nil, false
					}
					pins = append(pins, eq(sel, vt))
				}
			}
			return pins, true
		case "error":
			// an error that is not a known sentinel: non-nil, not any sentinel the clause may name
			return []string{not(eq(r.T, "niliface"))}, true
		}
	}
	return nil, false
}

func smtScalar(s string, k int, w int) (string, bool) {
	switch k {
	case KBV:
		n, err := strconv.ParseInt(s, 10, 64)
		if err != nil {
			return "", false
		}
		return bvConst(w, uint64(n)), true
	case KBool:
		return s, s == "true" || s == "false"
	case KFP:
		bits, err := strconv.ParseUint(s, 10, 64)
		if err != nil {
			return "", false
		}
		if math.IsNaN(math.Float64frombits(bits)) {
			return "(_ NaN 11 53)", true
		}
		return fmt.Sprintf("((_ to_fp 11 53) %s)", bvConst(64, bits)), true
	}
	return "", false
}

// goScalar renders a model value as a Go expression of type t.
func goScalar(v string, t types.Type, pkg *types.Package, imports map[string]bool) (string, bool) {
	v = strings.TrimSpace(v)
	tn := types.TypeString(t, func(p *types.Package) string {
		if p == pkg {
			return ""
		}
		imports[p.Path()] = true
		return p.Name()
	})
	switch {
	case v == "true" || v == "false":
		return fmt.Sprintf("%s(%s)", tn, v), true
	case strings.HasPrefix(v, "#x") || strings.HasPrefix(v, "#b"):
		var n uint64
		var bitsN int
		var err error
		if strings.HasPrefix(v, "#x") {
			n, err = strconv.ParseUint(v[2:], 16, 64)
			bitsN = 4 * (len(v) - 2)
		} else {
			n, err = strconv.ParseUint(v[2:], 2, 64)
			bitsN = len(v) - 2
		}
		if err != nil {
			return "", false
		}
		if b, ok := t.Underlying().(*types.Basic); ok && b.Info()&types.IsUnsigned == 0 {
			// signed: sign-extend from the value's width
			sv := int64(n)
			if bitsN < 64 && n&(1<<uint(bitsN-1)) != 0 {
				sv = int64(n) - (1 << uint(bitsN))
			}
			if sv == math.MinInt64 {
				return fmt.Sprintf("%s(math.MinInt64)", tn), true
			}
			return fmt.Sprintf("%s(%d)", tn, sv), true
		}
		return fmt.Sprintf("%s(%d)", tn, n), true
	case strings.HasPrefix(v, "(fp "):
		m := regexp.MustCompile(`\(fp #b([01]) #b([01]+) #x([0-9a-f]+)\)`).FindStringSubmatch(v)
		if m == nil {
			m2 := regexp.MustCompile(`\(fp #b([01]) #b([01]+) #b([01]+)\)`).FindStringSubmatch(v)
			if m2 == nil {
				return "", false
			}
			bits, _ := strconv.ParseUint(m2[1]+m2[2]+m2[3], 2, 64)
			return fmt.Sprintf("%s(math.Float64frombits(%d))", tn, bits), true
		}
		sign, _ := strconv.ParseUint(m[1], 2, 64)
		exp, _ := strconv.ParseUint(m[2], 2, 64)
		man, _ := strconv.ParseUint(m[3], 16, 64)
		bits := sign<<63 | exp<<52 | man
		return fmt.Sprintf("%s(math.Float64frombits(%d))", tn, bits), true
	case strings.HasPrefix(v, "(_ NaN"):
		return fmt.Sprintf("%s(math.NaN())", tn), true
	case strings.HasPrefix(v, "(_ +oo"):
		return fmt.Sprintf("%s(math.Inf(1))", tn), true
	case strings.HasPrefix(v, "(_ -oo"):
		return fmt.Sprintf("%s(math.Inf(-1))", tn), true
	case strings.HasPrefix(v, "(_ +zero"):
		return fmt.Sprintf("%s(0)", tn), true
	case strings.HasPrefix(v, "(_ -zero"):
		return fmt.Sprintf("%s(math.Copysign(0, -1))", tn), true
	}
	return "", false
}

// parseGetValues extracts, in order, the value of each `(get-value (t))` answer.
func parseGetValues(out string) []string {
	var vals []string
	i := strings.Index(out, "\n") // skip the "sat" line
	if i < 0 {
		return nil
	}
	s := out[i+1:]
	for {
		j := strings.Index(s, "((")
		if j < 0 {
			break
		}
		// s[j:] starts a "((term value))" answer: find its end
		depth, k := 0, j
		for ; k < len(s); k++ {
			if s[k] == '(' {
				depth++
			} else if s[k] == ')' {
				depth--
				if depth == 0 {
					break
				}
			}
		}
		if depth != 0 {
			break
		}
		inner := strings.TrimSpace(s[j+2 : k-1]) // "term value"
		// the value is the last top-level s-expression of inner
		d, cut := 0, -1
		for p := len(inner) - 1; p >= 0; p-- {
			c := inner[p]
			if c == ')' {
				d++
			} else if c == '(' {
				d--
			}
			if d == 0 && (c == ' ' || c == '\n' || c == '\t') {
				cut = p
				break
			}
			if d == 0 && c == '(' {
				cut = p - 1
				break
			}
		}
		if cut < 0 {
			break
		}
		vals = append(vals, strings.Join(strings.Fields(inner[cut+1:]), " "))
		s = s[k+1:]
	}
	return vals
}

func sortStrings(a []string) {
	for i := 1; i < len(a); i++ {
		for j := i; j > 0 && a[j] < a[j-1]; j-- {
			a[j], a[j-1] = a[j-1], a[j]
		}
	}
}

// describeSrc is the Go source of the result printer used by the harness.
func describeSrc(rootPkg bool) string {
	if !rootPkg {
		return `func tgvcDescribe(x interface{}, ins []interface{}) string { return fmt.Sprintf("other:%T", x) }
`
	}
	return `func tgvcDescribe(x interface{}, ins []interface{}) string {
	switch v := x.(type) {
	case nil:
		return "nil"
	case bool:
		return fmt.Sprintf("bool:%v", v)
	case int:
		return fmt.Sprintf("int:%d", v)
	case int64:
		return fmt.Sprintf("int:%d", v)
	case error:
		for n, s := range map[string]error{"ErrInvalidOperator": ErrInvalidOperator, "ErrWrongNumArguments": ErrWrongNumArguments,
			"ErrIndexOutOfBounds": ErrIndexOutOfBounds, "ErrInvalidIndexType": ErrInvalidIndexType, "ErrNotIndexable": ErrNotIndexable,
			"ErrStringLimit": ErrStringLimit, "ErrBytesLimit": ErrBytesLimit, "ErrObjectAllocLimit": ErrObjectAllocLimit, "ErrStackOverflow": ErrStackOverflow} {
			if v == s {
				return "sentinel:" + n
			}
		}
		return "error:" + v.Error()
	case Object:
		if v == nil {
			return "nil"
		}
		for i, in := range ins {
			if o, ok := in.(Object); ok && o == v {
				return fmt.Sprintf("same:%d", i)
			}
		}
		switch o := v.(type) {
		case *Undefined:
			if o == UndefinedValue {
				return "sentinel:UndefinedValue"
			}
		case *Bool:
			if o == TrueValue {
				return "sentinel:TrueValue"
			}
			if o == FalseValue {
				return "sentinel:FalseValue"
			}
			return fmt.Sprintf("obj:Bool:%v", !o.IsFalsy())
		case *Int:
			return fmt.Sprintf("obj:Int:%d", o.Value)
		case *Char:
			return fmt.Sprintf("obj:Char:%d", o.Value)
		case *Float:
			return fmt.Sprintf("obj:Float:%d", math.Float64bits(o.Value))
		}
		return fmt.Sprintf("other:%T", v)
	}
	return fmt.Sprintf("other:%T", x)
}
`
}

// cmdReplay re-runs the stored harness of a replay file against the current
// working tree of the repository: exit 1 if the real code still produces the
// recorded violating outputs, 0 if it does not, 2 if the file has no harness.
func cmdReplay(args []string) int {
	repo := "/repo"
	var file string
	for i := 0; i < len(args); i++ {
		if args[i] == "--repo" && i+1 < len(args) {
			repo = args[i+1]
			i++
		} else {
			file = args[i]
		}
	}
	b, err := os.ReadFile(file)
	if err != nil {
		fmt.Fprintln(os.Stderr, err)
		return 2
	}
	var rp Replay
	if err := json.Unmarshal(b, &rp); err != nil {
		fmt.Fprintln(os.Stderr, err)
		return 2
	}
	fmt.Printf("obligation: %s\nclause: %s\n", rp.Obligation, rp.Clause)
	if rp.Harness == "" {
		fmt.Println("no failing input recorded for this violation:", rp.Note)
		if rp.SMTFile != "" {
			fmt.Println("query:", rp.SMTFile, "verdict:", rp.Verdict)
		}
		return 2
	}
	m := regexp.MustCompile(`(?m)^package (\w+)`).FindStringSubmatch(rp.Harness)
	dir := repo
	if m != nil && m[1] != "tengo" {
		dir = filepath.Join(repo, m[1])
	}
	tmp, _ := os.MkdirTemp("", "tgvc-replay")
	defer os.RemoveAll(tmp)
	hf := filepath.Join(tmp, "zz_tgvc_replay_test.go")
	os.WriteFile(hf, []byte(rp.Harness), 0o644)
	ov, _ := json.Marshal(map[string]map[string]string{"Replace": {filepath.Join(dir, "zz_tgvc_replay_test.go"): hf}})
	ovf := filepath.Join(tmp, "overlay.json")
	os.WriteFile(ovf, ov, 0o644)
	cmd := exec.Command("go", "test", "-overlay", ovf, "-vet=off", "-v", "-count=1", "-timeout", "60s", "-run", "^TestTgvcReplay$", ".")
	cmd.Dir = dir
	cmd.Env = append(os.Environ(), "GOFLAGS=-mod=mod", "GOPROXY=off", "GOSUMDB=off", "GOTOOLCHAIN=local")
	out, _ := cmd.CombinedOutput()
	var obs []string
	for _, l := range strings.Split(string(out), "\n") {
		if strings.HasPrefix(l, "TGVC ") {
			obs = append(obs, strings.TrimPrefix(l, "TGVC "))
		}
	}
	fmt.Printf("input: %v\nrecorded outputs:\n%s\noutputs now:\n%s\n", rp.Witness, rp.Observed, strings.Join(obs, "\n"))
	if len(obs) == 0 {
		fmt.Println("harness did not run:", trunc(string(out), 800))
		return 2
	}
	if strings.Join(obs, "\n") == rp.Observed {
		fmt.Println("the real code still produces the violating outputs")
		return 1
	}
	fmt.Println("the real code no longer produces the recorded outputs")
	return 0
}
