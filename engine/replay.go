package main

// tryReplay attempts to turn a solver model into concrete inputs and run the
// real function on them (see replaygen.go). Until a harness exists for the
// function shape, the model is attached and the violation is reported without
// a failing input.
func tryReplay(e *Engine, o *Obligation, rp *Replay) {
	rp.Replayed = false
	rp.Note = "counterexample model attached; no replay harness for this function shape"
}
