package main

import (
	"fmt"
	"os"
	"go/constant"
	"go/token"
	"go/types"
	"sort"
	"strings"

	"golang.org/x/tools/go/ssa"
)

// maxVCLines caps the size of one function's VC (cap VC size from day one).
const maxVCLines = 600000

const (
	nkNormal = iota
	nkUnwind
	nkInvStep
)

type vedge struct {
	from, to *vnode
	cond     string // set when from is executed
	succIdx  int
	tagKey   string // fact learned on this edge: interface term ...
	tagVal   int    // ... has tag tagVal (>0) or does not have tag -tagVal (<0)
}

type vnode struct {
	blk   *ssa.BasicBlock
	ctx   string
	iters map[*loopInfo]int
	kind  int
	loop  *loopInfo // for nkUnwind / nkInvStep
	from  *ssa.BasicBlock // source of the back edge (nkInvStep)
	uid   int
	preds []*vedge
	succs []*vedge
	out   *State
	in    *State
	env   map[ssa.Value]Val
	tag   int
	done  bool
	// phi values carried along the edge into an nkInvStep node
	order int
}

type retInfo struct {
	st   *State
	vals []Val
	node *vnode
	pos  token.Pos
}

// inst is one symbolic execution of a function body (top level or inlined).
type inst struct {
	fv       *FnVC
	fn       *ssa.Function
	params   []Val
	free     []Val
	vals     map[ssa.Value]Val
	loops    []*loopInfo
	inLoops  map[*ssa.BasicBlock][]*loopInfo
	ct       *Contract
	depth    int
	top      bool
	nodes    map[string]*vnode
	order    []*vnode
	rets     []retInfo
	dup      map[*ssa.BasicBlock]bool
	entrySt  *State
	names    map[string][]ssa.Value // source name -> values (DebugRef)
	hdrState map[*loopInfo]*hdrSnap
	letVals  map[string]Val
	loopFrames map[*loopInfo]map[string]*region
	atNode *vnode
	addrNames map[string]ssa.Value // address-taken locals by source name (their cells)
	loopAllocPre map[*loopInfo]string // allocation counter just before each cut loop
	split    bool // duplicate join blocks per path instead of merging states
	at       *ssa.BasicBlock // evaluation point for name resolution
	cenvBase *cenv
	panicOK  bool
	callStack []*ssa.Function
	deferred []*deferRec
}

type deferRec struct {
	call *ssa.Defer
	flag string // Bool term: this defer was executed
	node *vnode
	args []Val
}

type hdrSnap struct {
	st       *State
	vars     map[string]Val
	pre      *State
	prevars  map[string]Val // names as bound when the loop was entered (phis = incoming values)
	keys     map[string]*writeShape
	anything bool
	exceptKeys []string // heaps bounded by the function frame in a loop with unknown-effect calls
}

func (in *inst) loopSpec(l *loopInfo) *LoopSpec {
	if in.ct != nil && in.ct.Loops != nil {
		if ls := in.ct.Loops[l.ord]; ls != nil {
			return ls
		}
	}
	return &LoopSpec{}
}

func ctxKey(iters map[*loopInfo]int) string {
	if len(iters) == 0 {
		return ""
	}
	var ps []string
	for l, i := range iters {
		ps = append(ps, fmt.Sprintf("L%d:%d", l.ord, i))
	}
	sort.Strings(ps)
	return strings.Join(ps, ",")
}

func (in *inst) node(b *ssa.BasicBlock, iters map[*loopInfo]int, kind int, l *loopInfo, from *ssa.BasicBlock, path string) (*vnode, bool) {
	key := fmt.Sprintf("%d/%s/%d%s", b.Index, ctxKey(iters), kind, path)
	if l != nil {
		key += fmt.Sprintf("/L%d", l.ord)
	}
	if from != nil {
		key += fmt.Sprintf("/from%d", from.Index)
	}
	if n, ok := in.nodes[key]; ok {
		return n, false
	}
	n := &vnode{blk: b, ctx: ctxKey(iters), iters: iters, kind: kind, loop: l, from: from, uid: len(in.nodes)}
	in.nodes[key] = n
	return n, true
}

// buildGraph constructs the acyclic virtual CFG: unrolled loops are
// duplicated per iteration, invariant-cut loops end at inv-step nodes.
func (in *inst) buildGraph() {
	in.loops = findLoops(in.fn)
	in.inLoops = map[*ssa.BasicBlock][]*loopInfo{}
	in.dup = map[*ssa.BasicBlock]bool{}
	hdr := map[*ssa.BasicBlock]*loopInfo{}
	for _, l := range in.loops {
		hdr[l.header] = l
		for b := range l.body {
			in.inLoops[b] = append(in.inLoops[b], l)
			if in.loopSpec(l).Unroll > 0 {
				in.dup[b] = true
			}
		}
	}
	in.nodes = map[string]*vnode{}
	if in.split {
		for _, b := range in.fn.Blocks {
			in.dup[b] = true
		}
	}
	entry, _ := in.node(in.fn.Blocks[0], map[*loopInfo]int{}, nkNormal, nil, nil, "")
	var post []*vnode
	visited := map[*vnode]bool{}
	var dfs func(n *vnode)
	dfs = func(n *vnode) {
		visited[n] = true
		if n.kind == nkNormal {
			for si, s := range n.blk.Succs {
				// context for s: keep counters of loops containing s
				iters := map[*loopInfo]int{}
				for l, i := range n.iters {
					if l.body[s] {
						iters[l] = i
					}
				}
				kind := nkNormal
				var lp *loopInfo
				if l := hdr[s]; l != nil {
					ls := in.loopSpec(l)
					if l.body[n.blk] { // back edge
						if ls.Unroll > 0 {
							i := n.iters[l] + 1
							if i >= ls.Unroll {
								kind, lp = nkUnwind, l
							} else {
								iters[l] = i
							}
						} else {
							kind, lp = nkInvStep, l
						}
					} else if ls.Unroll > 0 {
						iters[l] = 0
					}
				}
				from := n.blk
				if kind == nkNormal && !smallReturnBlock(s) {
					from = nil
				}
				path := ""
				if in.split && hdr[s] == nil && len(s.Preds) > 1 {
					// path splitting: join blocks outside loop headers are duplicated per incoming path
					path = fmt.Sprintf("/path%d", n.uid)
				}
				t, _ := in.node(s, iters, kind, lp, from, path)
				e := &vedge{from: n, to: t, succIdx: si}
				n.succs = append(n.succs, e)
				t.preds = append(t.preds, e)
				if !visited[t] {
					dfs(t)
				}
			}
		}
		post = append(post, n)
	}
	dfs(entry)
	for i := len(post) - 1; i >= 0; i-- {
		post[i].order = len(in.order)
		in.order = append(in.order, post[i])
	}
}

// lookup returns the symbolic value of an SSA value at node n.
func (in *inst) lookup(n *vnode, v ssa.Value) Val {
	switch c := v.(type) {
	case *ssa.Const:
		return in.fv.constVal(c)
	case *ssa.Global:
		return Val{K: KLoc, T: in.fv.globalLoc(c), Typ: c.Type()}
	case *ssa.Function:
		return Val{K: KLoc, T: in.fv.funcLoc(c), Typ: c.Type()}
	case *ssa.Builtin:
		return Val{K: KLoc, T: "LNil", Typ: c.Type()}
	}
	if ins, ok := v.(ssa.Instruction); ok && in.dup[ins.Block()] {
		if x, ok := n.env[v]; ok {
			return x
		}
	}
	if x, ok := in.vals[v]; ok {
		return x
	}
	in.fv.outOfSubset(fmt.Sprintf("value %s (%T) used before definition in %s", v.Name(), v, in.fn))
	return in.fv.unknown(n.in, v.Type(), "undef")
}

func (in *inst) setVal(n *vnode, v ssa.Value, x Val) {
	if x.Typ == nil {
		x.Typ = v.Type()
	}
	if ins, ok := v.(ssa.Instruction); ok && in.dup[ins.Block()] {
		n.env[v] = x
		return
	}
	in.vals[v] = x
}

func (fv *FnVC) funcLoc(f *ssa.Function) string {
	id, ok := fv.gids[f]
	if !ok {
		id = 1000 + len(fv.gids)
		fv.gids[f] = id
	}
	return fmt.Sprintf("(LRoot (- %d))", id)
}

// unknown returns a fresh unconstrained value of type t.
func (fv *FnVC) unknown(st *State, t types.Type, prefix string) Val {
	k, w, srt := kindOf(t)
	v := Val{K: k, W: w, Sort: srt, Typ: t}
	switch k {
	case KStruct:
		switch u := types.Unalias(t).Underlying().(type) {
		case *types.Struct:
			for i := 0; i < u.NumFields(); i++ {
				v.Fs = append(v.Fs, fv.unknown(st, u.Field(i).Type(), prefix))
			}
		case *types.Array:
			for i := int64(0); i < u.Len() && i < 64; i++ {
				v.Fs = append(v.Fs, fv.unknown(st, u.Elem(), prefix))
			}
		}
		return v
	case KTuple:
		tu := t.(*types.Tuple)
		for i := 0; i < tu.Len(); i++ {
			v.Fs = append(v.Fs, fv.unknown(st, tu.At(i).Type(), prefix))
		}
		return v
	}
	v.T = fv.decl(prefix, v.sortOf())
	if st != nil {
		fv.assumeWF(st, v)
	}
	return v
}

func (fv *FnVC) constVal(c *ssa.Const) Val {
	t := c.Type()
	if c.Value == nil {
		return fv.zeroVal(t)
	}
	k, w, srt := kindOf(t)
	v := Val{K: k, W: w, Sort: srt, Typ: t}
	switch k {
	case KBV:
		if isSigned(t) {
			x, _ := constant.Int64Val(constant.ToInt(c.Value))
			v.T = bvConst(w, uint64(x))
		} else {
			x, _ := constant.Uint64Val(constant.ToInt(c.Value))
			v.T = bvConst(w, x)
		}
	case KBool:
		if constant.BoolVal(c.Value) {
			v.T = "true"
		} else {
			v.T = "false"
		}
	case KFP:
		f, _ := constant.Float64Val(c.Value)
		v.T = fpLit(w, f)
	case KStr:
		v.T = fv.strLit(constant.StringVal(c.Value))
	default:
		fv.outOfSubset("constant of type " + t.String())
		v.T = "LNil"
	}
	return v
}

// mergeVals builds ite(c1, v1, ite(c2, v2, ... vn)).
func (fv *FnVC) mergeVals(conds []string, vs []Val) Val {
	if len(vs) == 1 {
		return vs[0]
	}
	v0 := vs[0]
	if v0.K == KStruct || v0.K == KTuple {
		out := v0
		out.Fs = nil
		for i := range v0.Fs {
			var fs []Val
			for _, v := range vs {
				if i < len(v.Fs) {
					fs = append(fs, v.Fs[i])
				}
			}
			out.Fs = append(out.Fs, fv.mergeVals(conds, fs))
		}
		return out
	}
	same := true
	for _, v := range vs {
		if v.T != v0.T {
			same = false
		}
	}
	if same {
		return v0
	}
	t := vs[len(vs)-1].T
	for i := len(vs) - 2; i >= 0; i-- {
		t = ite(conds[i], vs[i].T, t)
	}
	out := v0
	out.T = fv.defAlways("phi", v0.sortOf(), t)
	return out
}

// run executes the function body symbolically.
func (in *inst) run(st *State) {
	in.buildGraph()
	fv := in.fv
	if in.top {
		// tags and ancestor sets
		for _, n := range in.order {
			n.tag = n.order
			a := map[int]bool{n.tag: true}
			for _, e := range n.preds {
				for k := range fv.anc[e.from.tag] {
					a[k] = true
				}
			}
			fv.anc[n.tag] = a
		}
	}
	for _, n := range in.order {
		if in.top {
			fv.curTag = n.tag
		} else {
			n.tag = fv.curTag
		}
		in.execNode(n, st)
		if os.Getenv("TGVC_DEBUG") != "" && in.top {
			fmt.Fprintf(os.Stderr, "node %d/%d block %d lines %d obls %d\n", n.order, len(in.order), n.blk.Index, len(fv.lines), len(fv.obls))
		}
		if len(fv.lines) > maxVCLines && !fv.unsupported {
			fv.outOfSubset(fmt.Sprintf("verification condition exceeds %d lines (function too large to inline; needs callee contracts)", maxVCLines))
		}
		if fv.unsupported {
			return
		}
	}
}

func (in *inst) execNode(n *vnode, entry *State) {
	fv := in.fv
	// incoming edges
	var conds []string
	var sts []*State
	var edges []*vedge
	for _, e := range n.preds {
		if e.from.out == nil || e.cond == "false" || e.cond == "" {
			continue
		}
		conds = append(conds, e.cond)
		ps := e.from.out
		if e.tagKey != "" {
			ps = ps.clone()
			if ps.tags == nil {
				ps.tags = map[string]int{}
			}
			if e.tagVal > 0 || ps.tags[e.tagKey] == 0 {
				ps.tags[e.tagKey] = e.tagVal
			}
		}
		sts = append(sts, ps)
		edges = append(edges, e)
	}
	if n.blk.Index == 0 && n.kind == nkNormal && len(n.preds) == 0 {
		n.in = entry.clone()
		n.env = map[ssa.Value]Val{}
	} else {
		if len(edges) == 0 {
			return // unreachable
		}
		n.in = fv.mergeStates(conds, sts)
		// merge duplicated-value environments
		n.env = map[ssa.Value]Val{}
		if len(in.dup) > 0 {
			keys := map[ssa.Value]bool{}
			for _, e := range edges {
				for k := range e.from.env {
					keys[k] = true
				}
			}
			for k := range keys {
				var cs []string
				var vs []Val
				for i, e := range edges {
					if v, ok := e.from.env[k]; ok {
						cs = append(cs, conds[i])
						vs = append(vs, v)
					}
				}
				n.env[k] = fv.mergeVals(cs, vs)
			}
		}
	}
	st := n.in
	switch n.kind {
	case nkUnwind:
		fv.oblige(fmt.Sprintf("%s#unwind@loop%d", funcKey(in.fn), n.loop.ord), "unwind", in.propsFor(nil), st.reach, "false",
			fmt.Sprintf("loop %d unroll %d suffices", n.loop.ord, in.loopSpec(n.loop).Unroll), n.blk.Instrs[0].Pos())
		return
	case nkInvStep:
		in.invStep(n, edges, conds)
		return
	}
	// phis
	var hdrLoop *loopInfo
	for _, l := range in.loops {
		if l.header == n.blk && in.loopSpec(l).Unroll == 0 {
			hdrLoop = l
		}
	}
	if hdrLoop != nil {
		in.cutHeader(n, hdrLoop, edges, conds)
	} else {
		for _, ins := range n.blk.Instrs {
			phi, ok := ins.(*ssa.Phi)
			if !ok {
				break
			}
			var vs []Val
			for _, e := range edges {
				vs = append(vs, in.phiIncoming(phi, e))
			}
			in.setVal(n, phi, fv.mergeVals(conds, vs))
		}
	}
	for _, ins := range n.blk.Instrs {
		if _, ok := ins.(*ssa.Phi); ok {
			continue
		}
		in.execInstr(n, st, ins)
		if fv.unsupported && in.top {
			return
		}
	}
	n.out = st
}

func (in *inst) phiIncoming(phi *ssa.Phi, e *vedge) Val {
	for i, p := range phi.Block().Preds {
		if p == e.from.blk {
			return in.lookup(e.from, phi.Edges[i])
		}
	}
	panic("phi edge not found")
}

func (in *inst) propsFor(cl *Clause) []string {
	if cl != nil && len(cl.Props) > 0 {
		return cl.Props
	}
	if in.fv.ct != nil {
		return in.fv.ct.Props
	}
	return nil
}

// ---------------------------------------------------------------------------
// instructions
// ---------------------------------------------------------------------------

func (in *inst) safety(n *vnode, st *State, what, goal string, pos token.Pos) {
	fv := in.fv
	if in.panicOK && (what == "index" || what == "slice" || what == "nil" || what == "typeassert" || what == "makeslice") {
		fv.assume(st.reach, goal)
		return
	}
	id := fmt.Sprintf("%s#safe:%s@%s", funcKey(fv.top), what, in.posKey(pos, n))
	fv.oblige(id, "safety", in.propsFor(nil), st.reach, goal, what, pos)
}

// posKey gives a position-independent-ish site key: function-relative
// ordinal of the instruction kind would be more stable, but line offsets
// relative to the function start are good enough and readable.
func (in *inst) posKey(pos token.Pos, n *vnode) string {
	fv := in.fv
	k := ""
	if pos.IsValid() {
		p := fv.eng.prog.Fset.Position(pos)
		base := fv.eng.prog.Fset.Position(in.fn.Pos())
		if in.fn != fv.top {
			k = fmt.Sprintf("%s+%d", in.fn.Name(), p.Line-base.Line)
		} else {
			k = fmt.Sprintf("+%d", p.Line-base.Line)
		}
	} else {
		k = fmt.Sprintf("b%d", n.blk.Index)
	}
	if n.ctx != "" {
		k += "[" + n.ctx + "]"
	}
	fv.n++
	return fmt.Sprintf("%s.%d", k, fv.n)
}

func (in *inst) execInstr(n *vnode, st *State, ins ssa.Instruction) {
	fv := in.fv
	switch x := ins.(type) {
	case *ssa.DebugRef:
		return
	case *ssa.Alloc:
		loc := fv.newObject(st)
		fv.zeroInit(st, loc, x.Type().(*types.Pointer).Elem())
		av := Val{K: KLoc, T: loc, Typ: x.Type()}
		// the new cell holds exactly a value of its element type (also for scalar cells)
		fv.assume("true", eq("(ltype "+loc+")", fmt.Sprint(fv.eng.tagOf(x.Type().(*types.Pointer).Elem()))))
		if localOnly(x) {
			// the cell never escapes this function: calls with unknown effects cannot reach it
			fv.localRoots = append(fv.localRoots, loc)
			fv.localRootTag = append(fv.localRootTag, fv.curTag)
		}
		in.setVal(n, x, av)
	case *ssa.FieldAddr:
		p := in.lookup(n, x.X)
		in.safety(n, st, "nil", not(eq(p.T, "LNil")), x.Pos())
		fav := Val{K: KLoc, T: fv.def("fa", "Loc", lfield(p.T, x.Field)), Typ: x.Type()}
		fv.assumePtrType(st.reach, fav)
		in.setVal(n, x, fav)
	case *ssa.Field:
		s := in.lookup(n, x.X)
		if x.Field >= len(s.Fs) {
			fv.outOfSubset("field of non-struct value")
			return
		}
		in.setVal(n, x, s.Fs[x.Field])
	case *ssa.IndexAddr:
		in.indexAddr(n, st, x)
	case *ssa.Index:
		in.index(n, st, x)
	case *ssa.UnOp:
		in.unop(n, st, x)
	case *ssa.BinOp:
		a, b := in.lookup(n, x.X), in.lookup(n, x.Y)
		in.setVal(n, x, in.binop(n, st, x.Op, a, b, x.X.Type(), x.Y.Type(), x.Type(), x.Pos()))
	case *ssa.Store:
		addr := in.lookup(n, x.Addr)
		v := in.lookup(n, x.Val)
		in.safety(n, st, "nil", not(eq(addr.T, "LNil")), x.Pos())
		fv.store(st, addr.T, x.Val.Type(), v)
		if fa, ok := x.Addr.(*ssa.FieldAddr); ok {
			if fi := fv.eng.immutableOf(fa); fi != nil {
				base := in.lookup(n, fa.X)
				id := fmt.Sprintf("%s#site:%s.%s:immutable@%s", funcKey(fv.top), fi.Type, fi.Field, in.siteKey(x.Pos(), n))
				fv.oblige(id, "site", fi.Clause.Props, st.reach, "(>= (root "+base.T+") "+fv.allocEntry+")", "the field is written only while its object is under construction (fresh)", x.Pos())
			}
			if fi, _ := fv.eng.fieldInvOf(fa); fi != nil && funcPkg(in.fn).Path() == fi.PkgPath {
				ce := in.baseEnv(st)
				ce.vars = map[string]Val{"v": v}
				ce.pkg = fv.eng.tpkgs[fi.PkgPath]
				ce.where = "fieldinv " + fi.Type + "." + fi.Field
				t := ce.evalGoal(fi.Clause.Expr)
				if ce.err != nil {
					fv.specErr(ce.err)
				}
				id := fmt.Sprintf("%s#site:%s.%s:%s@%s", funcKey(fv.top), fi.Type, fi.Field, fi.Clause.Name, in.siteKey(x.Pos(), n))
				fv.oblige(id, "site", fi.Clause.Props, st.reach, t, fi.Clause.Expr, x.Pos())
			}
		}
	case *ssa.Convert:
		in.setVal(n, x, in.convert(n, st, in.lookup(n, x.X), x.X.Type(), x.Type()))
	case *ssa.ChangeType:
		v := in.lookup(n, x.X)
		v.Typ = x.Type()
		in.setVal(n, x, v)
	case *ssa.ChangeInterface:
		v := in.lookup(n, x.X)
		v.Typ = x.Type()
		in.setVal(n, x, v)
	case *ssa.MakeInterface:
		in.setVal(n, x, in.makeInterface(st, in.lookup(n, x.X), x.X.Type(), x.Type()))
	case *ssa.TypeAssert:
		in.typeAssert(n, st, x)
	case *ssa.Extract:
		t := in.lookup(n, x.Tuple)
		if x.Index >= len(t.Fs) {
			fv.outOfSubset("extract from non-tuple")
			return
		}
		in.setVal(n, x, t.Fs[x.Index])
	case *ssa.Slice:
		in.slice(n, st, x)
	case *ssa.MakeSlice:
		ln, cp := in.lookup(n, x.Len), in.lookup(n, x.Cap)
		l64, c64 := in.toBV64(ln, x.Len.Type()), in.toBV64(cp, x.Cap.Type())
		in.safety(n, st, "makeslice", and("(bvsle #x0000000000000000 "+l64+")", "(bvsle "+l64+" "+c64+")"), x.Pos())
		// an allocation that succeeds is of bounded size (the Go runtime rejects larger requests)
		fv.assume(st.reach, "(bvslt "+c64+" #x0000400000000000)")
		arr := fv.newObject(st)
		et := x.Type().Underlying().(*types.Slice).Elem()
		in.zeroRegion(st, arr, et)
		in.setVal(n, x, Val{K: KSlice, T: fv.def("mk", "Slice", "(mkslice "+arr+" #x0000000000000000 "+l64+" "+c64+")"), Typ: x.Type()})
	case *ssa.MakeMap:
		m := fv.newObject(st)
		in.mapInit(st, m, x.Type())
		in.setVal(n, x, Val{K: KLoc, T: m, Typ: x.Type()})
	case *ssa.MakeClosure:
		loc := fv.newObject(st)
		fn := x.Fn.(*ssa.Function)
		var bs []Val
		for _, b := range x.Bindings {
			bs = append(bs, in.lookup(n, b))
		}
		fv.closures[loc] = &closureRec{fn: fn, bindings: bs}
		in.setVal(n, x, Val{K: KLoc, T: loc, Typ: x.Type()})
	case *ssa.Lookup:
		in.mapLookup(n, st, x)
	case *ssa.MapUpdate:
		in.mapUpdate(n, st, x)
	case *ssa.Range:
		in.rangeInit(n, st, x)
	case *ssa.Next:
		in.rangeNext(n, st, x)
	case *ssa.Call:
		in.call(n, st, x)
	case *ssa.Defer:
		in.deferCall(n, st, x)
	case *ssa.RunDefers:
		in.runDefers(n, st, x)
	case *ssa.Jump:
		n.succs[0].cond = st.reach
	case *ssa.If:
		c := in.lookup(n, x.Cond)
		of, isOk := fv.okTerms[c.T]
		for _, e := range n.succs {
			if e.succIdx == 0 {
				e.cond = fv.def("edge", "Bool", and(st.reach, c.T))
				fv.noteAnd(e.cond, st.reach)
				fv.edgePos[e.cond] = in.posOf(x, n) + " then"
				if isOk {
					e.tagKey, e.tagVal = of.iface, of.tag
				}
			} else {
				e.cond = fv.def("edge", "Bool", and(st.reach, not(c.T)))
				fv.noteAnd(e.cond, st.reach)
				fv.edgePos[e.cond] = in.posOf(x, n) + " else"
				if isOk {
					e.tagKey, e.tagVal = of.iface, -of.tag
				}
			}
		}
	case *ssa.Return:
		var vs []Val
		for _, r := range x.Results {
			vs = append(vs, in.lookup(n, r))
		}
		rpos := x.Pos()
		if n.from != nil {
			// duplicated return block: report the end of the path that leads here
			for i := len(n.from.Instrs) - 1; i >= 0; i-- {
				if p := n.from.Instrs[i].Pos(); p.IsValid() {
					rpos = p
					break
				}
			}
		}
		in.rets = append(in.rets, retInfo{st: st, vals: vs, node: n, pos: rpos})
	case *ssa.Panic:
		in.panicInstr(n, st, x)
	default:
		fv.outOfSubset(fmt.Sprintf("%T in %s", ins, in.fn))
	}
}

func (in *inst) panicInstr(n *vnode, st *State, x *ssa.Panic) {
	fv := in.fv
	if fv.ct != nil && fv.ct.hasMode("may-panic") {
		return
	}
	id := fmt.Sprintf("%s#safe:panic@%s", funcKey(fv.top), in.posKey(x.Pos(), n))
	fv.oblige(id, "safety", in.propsFor(nil), st.reach, "false", "explicit panic unreachable", x.Pos())
}

func (in *inst) toBV64(v Val, t types.Type) string {
	if v.K != KBV {
		return v.T
	}
	if v.W == 64 {
		return v.T
	}
	if isSigned(t) {
		return fmt.Sprintf("((_ sign_extend %d) %s)", 64-v.W, v.T)
	}
	return fmt.Sprintf("((_ zero_extend %d) %s)", 64-v.W, v.T)
}

func (in *inst) indexAddr(n *vnode, st *State, x *ssa.IndexAddr) {
	fv := in.fv
	base := in.lookup(n, x.X)
	idx := in.toBV64(in.lookup(n, x.Index), x.Index.Type())
	switch t := types.Unalias(x.X.Type()).Underlying().(type) {
	case *types.Slice:
		in.safety(n, st, "index", and("(bvsle #x0000000000000000 "+idx+")", "(bvslt "+idx+" (slen "+base.T+"))"), x.Pos())
		ea := fv.def("ea", "Loc", lelem("(sarr "+base.T+")", "(bvadd (soff "+base.T+") "+idx+")"))
		fv.elemLocs[ea] = true
		if fv.eng.nilable[sliceOrigin(x.X)] {
			fv.nilableLocs[ea] = true
		}
		fv.assumePtrType(st.reach, Val{K: KLoc, T: ea, Typ: x.Type()})
		// every index the code uses is an instantiation point for assumed "forall i in .." clauses
		if fv.boundDepth == 0 && !fv.hasSkolem(idx) {
			fv.instantiateLazies2(idx, bvSort(64), canonType(t.Elem()))
		}
		in.setVal(n, x, Val{K: KLoc, T: ea, Typ: x.Type()})
	case *types.Pointer:
		arr := t.Elem().Underlying().(*types.Array)
		in.safety(n, st, "nil", not(eq(base.T, "LNil")), x.Pos())
		in.safety(n, st, "index", and("(bvsle #x0000000000000000 "+idx+")", "(bvslt "+idx+" "+bv64(arr.Len())+")"), x.Pos())
		in.setVal(n, x, Val{K: KLoc, T: fv.def("ea", "Loc", lelem(base.T, idx)), Typ: x.Type()})
	default:
		fv.outOfSubset("IndexAddr on " + x.X.Type().String())
	}
}

func (in *inst) index(n *vnode, st *State, x *ssa.Index) {
	fv := in.fv
	base := in.lookup(n, x.X)
	idx := in.toBV64(in.lookup(n, x.Index), x.Index.Type())
	switch t := types.Unalias(x.X.Type()).Underlying().(type) {
	case *types.Basic: // string
		in.safety(n, st, "index", and("(bvsle #x0000000000000000 "+idx+")", "(bvslt "+idx+" (s_len "+base.T+"))"), x.Pos())
		in.setVal(n, x, Val{K: KBV, W: 8, T: fv.def("ch", bvSort(8), "(s_at "+base.T+" "+idx+")"), Typ: x.Type()})
	case *types.Array:
		_ = t
		fv.outOfSubset("Index on array value")
	default:
		fv.outOfSubset("Index on " + x.X.Type().String())
	}
}

func (in *inst) unop(n *vnode, st *State, x *ssa.UnOp) {
	fv := in.fv
	switch x.Op {
	case token.MUL: // load
		if g, ok := x.X.(*ssa.Global); ok {
			if s := fv.eng.sentinels[g]; s != nil {
				in.setVal(n, x, fv.sentinelVal(s, x.Type()))
				return
			}
		}
		if ia, ok := x.X.(*ssa.IndexAddr); ok {
			if g, ok := ia.X.(*ssa.Global); ok {
				if ti := fv.eng.tables[g]; ti != nil {
					in.setVal(n, x, in.tableRow(n, st, ti, ia, x.Type()))
					return
				}
			}
		}
		a := in.lookup(n, x.X)
		in.safety(n, st, "nil", not(eq(a.T, "LNil")), x.Pos())
		lv := fv.load(st, a.T, x.Type())
		if fa, ok := x.X.(*ssa.FieldAddr); ok {
			fv.assumeFieldInv(st, fa, lv)
		}
		in.setVal(n, x, lv)
	case token.NOT:
		a := in.lookup(n, x.X)
		in.setVal(n, x, Val{K: KBool, T: not(a.T), Typ: x.Type()})
	case token.SUB:
		a := in.lookup(n, x.X)
		if a.K == KFP {
			in.setVal(n, x, Val{K: KFP, W: a.W, T: "(fp.neg " + a.T + ")", Typ: x.Type()})
		} else {
			in.setVal(n, x, Val{K: KBV, W: a.W, T: "(bvneg " + a.T + ")", Typ: x.Type()})
		}
	case token.XOR:
		a := in.lookup(n, x.X)
		in.setVal(n, x, Val{K: KBV, W: a.W, T: "(bvnot " + a.T + ")", Typ: x.Type()})
	default:
		fv.outOfSubset("unary " + x.Op.String())
	}
}

func (fv *FnVC) sentinelVal(s *sentinel, t types.Type) Val {
	loc := fmt.Sprintf("(LRoot (- %d))", -s.id)
	if s.isPtr {
		return Val{K: KLoc, T: loc, Typ: t}
	}
	tag := fv.eng.tagOfName(s.tag)
	return Val{K: KIface, T: fmt.Sprintf("(mkiface %d %s)", tag, loc), Typ: t}
}

func (e *Engine) tagOfName(k string) int {
	if id, ok := e.tags[k]; ok {
		return id
	}
	id := len(e.tags) + 1
	e.tags[k] = id
	e.tagTypes = append(e.tagTypes, nil)
	return id
}

func cmpOp(op token.Token, signed bool) string {
	switch op {
	case token.LSS:
		if signed {
			return "bvslt"
		}
		return "bvult"
	case token.LEQ:
		if signed {
			return "bvsle"
		}
		return "bvule"
	case token.GTR:
		if signed {
			return "bvsgt"
		}
		return "bvugt"
	case token.GEQ:
		if signed {
			return "bvsge"
		}
		return "bvuge"
	}
	return ""
}

func (in *inst) binop(n *vnode, st *State, op token.Token, a, b Val, ta, tb, tr types.Type, pos token.Pos) Val {
	fv := in.fv
	bl := func(t string) Val { return Val{K: KBool, T: fv.def("b", "Bool", t), Typ: tr} }
	switch a.K {
	case KBV:
		sg := isSigned(ta)
		w := a.W
		bvr := func(t string) Val { return Val{K: KBV, W: w, T: fv.def("i", bvSort(w), t), Typ: tr} }
		switch op {
		case token.ADD:
			return bvr("(bvadd " + a.T + " " + b.T + ")")
		case token.SUB:
			return bvr("(bvsub " + a.T + " " + b.T + ")")
		case token.MUL:
			return bvr("(bvmul " + a.T + " " + b.T + ")")
		case token.QUO, token.REM:
			if n != nil {
				in.safety(n, st, "divzero", not(eq(b.T, bvConst(w, 0))), pos)
			}
			o := map[bool]map[token.Token]string{true: {token.QUO: "bvsdiv", token.REM: "bvsrem"}, false: {token.QUO: "bvudiv", token.REM: "bvurem"}}[sg][op]
			return bvr("(" + o + " " + a.T + " " + b.T + ")")
		case token.AND:
			return bvr("(bvand " + a.T + " " + b.T + ")")
		case token.OR:
			return bvr("(bvor " + a.T + " " + b.T + ")")
		case token.XOR:
			return bvr("(bvxor " + a.T + " " + b.T + ")")
		case token.AND_NOT:
			return bvr("(bvand " + a.T + " (bvnot " + b.T + "))")
		case token.SHL, token.SHR:
			cnt := b.T
			if isSigned(tb) && n != nil {
				if _, isConst := constOf(b.T); !isConst {
					in.safety(n, st, "shift", "(bvsge "+b.T+" "+bvConst(b.W, 0)+")", pos)
				}
			}
			if b.W < w {
				cnt = fmt.Sprintf("((_ zero_extend %d) %s)", w-b.W, b.T)
			} else if b.W > w {
				cnt = ite("(bvuge "+b.T+" "+bvConst(b.W, uint64(w))+")", bvConst(w, uint64(w)), fmt.Sprintf("((_ extract %d 0) %s)", w-1, b.T))
			}
			if op == token.SHL {
				return bvr("(bvshl " + a.T + " " + cnt + ")")
			}
			if sg {
				return bvr("(bvashr " + a.T + " " + cnt + ")")
			}
			return bvr("(bvlshr " + a.T + " " + cnt + ")")
		case token.EQL:
			return bl(eq(a.T, b.T))
		case token.NEQ:
			return bl(not(eq(a.T, b.T)))
		case token.LSS, token.LEQ, token.GTR, token.GEQ:
			return bl("(" + cmpOp(op, sg) + " " + a.T + " " + b.T + ")")
		}
	case KFP:
		fpr := func(t string) Val { return Val{K: KFP, W: a.W, T: fv.def("f", fpSort(a.W), t), Typ: tr} }
		switch op {
		case token.ADD:
			return fpr("(fp.add RNE " + a.T + " " + b.T + ")")
		case token.SUB:
			return fpr("(fp.sub RNE " + a.T + " " + b.T + ")")
		case token.MUL:
			return fpr("(fp.mul RNE " + a.T + " " + b.T + ")")
		case token.QUO:
			return fpr("(fp.div RNE " + a.T + " " + b.T + ")")
		case token.EQL:
			return bl("(fp.eq " + a.T + " " + b.T + ")")
		case token.NEQ:
			return bl("(not (fp.eq " + a.T + " " + b.T + "))")
		case token.LSS:
			return bl("(fp.lt " + a.T + " " + b.T + ")")
		case token.LEQ:
			return bl("(fp.leq " + a.T + " " + b.T + ")")
		case token.GTR:
			return bl("(fp.gt " + a.T + " " + b.T + ")")
		case token.GEQ:
			return bl("(fp.geq " + a.T + " " + b.T + ")")
		}
	case KBool:
		switch op {
		case token.EQL:
			return bl(eq(a.T, b.T))
		case token.NEQ:
			return bl(not(eq(a.T, b.T)))
		case token.AND, token.LAND:
			return bl(and(a.T, b.T))
		case token.OR, token.LOR:
			return bl(or(a.T, b.T))
		}
	case KStr:
		switch op {
		case token.ADD:
			r := fv.defAlways("s", "Str", "(s_cat "+a.T+" "+b.T+")")
			fv.assume("true", eq("(s_len "+r+")", "(bvadd (s_len "+a.T+") (s_len "+b.T+"))"))
			return Val{K: KStr, T: r, Typ: tr}
		case token.EQL:
			return bl(eq(a.T, b.T))
		case token.NEQ:
			return bl(not(eq(a.T, b.T)))
		case token.LSS:
			return bl(fv.strLt(a.T, b.T))
		case token.GTR:
			return bl(fv.strLt(b.T, a.T))
		case token.LEQ:
			return bl(or(fv.strLt(a.T, b.T), eq(a.T, b.T)))
		case token.GEQ:
			return bl(or(fv.strLt(b.T, a.T), eq(a.T, b.T)))
		}
	case KLoc, KSlice, KOpaque:
		switch op {
		case token.EQL:
			if a.K == KSlice { // only comparison with nil is legal
				return bl(eq("(sarr "+a.T+")", "(sarr "+b.T+")"))
			}
			return bl(eq(a.T, b.T))
		case token.NEQ:
			if a.K == KSlice {
				return bl(not(eq("(sarr "+a.T+")", "(sarr "+b.T+")")))
			}
			return bl(not(eq(a.T, b.T)))
		}
	case KIface:
		e := fv.ifaceEq(a, b)
		switch op {
		case token.EQL:
			return bl(e)
		case token.NEQ:
			return bl(not(e))
		}
	case KStruct:
		if op == token.EQL || op == token.NEQ {
			var cs []string
			for i := range a.Fs {
				ft := a.Fs[i].Typ
				cs = append(cs, in.binop(n, st, token.EQL, a.Fs[i], b.Fs[i], ft, ft, types.Typ[types.Bool], pos).T)
			}
			if op == token.EQL {
				return bl(and(cs...))
			}
			return bl(not(and(cs...)))
		}
	}
	fv.outOfSubset(fmt.Sprintf("binary %s on kind %d", op, a.K))
	return fv.unknown(st, tr, "unk")
}

func constOf(t string) (string, bool) {
	if strings.HasPrefix(t, "#x") || strings.HasPrefix(t, "(_ bv") {
		return t, true
	}
	return "", false
}

// strLt is the strict total order on strings; order facts are emitted per
// compared pair (irreflexive, asymmetric, total).
func (fv *FnVC) strLt(a, b string) string {
	if fv.boundDepth == 0 {
		fv.assume("true", and(not(and("(s_lt "+a+" "+b+")", "(s_lt "+b+" "+a+")")),
			or("(s_lt "+a+" "+b+")", "(s_lt "+b+" "+a+")", eq(a, b)), implies(eq(a, b), not("(s_lt "+a+" "+b+")"))))
	}
	return "(s_lt " + a + " " + b + ")"
}

// ifaceEq: Go interface equality. Exact when the dynamic type is a pointer
// (all Tengo objects, error sentinels); for boxed dynamic types equal boxes
// are equal and different tags are unequal, anything else is left open.
func (fv *FnVC) ifaceEq(a, b Val) string {
	if a.T == "niliface" || b.T == "niliface" {
		return eq(a.T, b.T)
	}
	fv.declUF("tag_boxed", []string{"Int"}, "Bool")
	fv.declUF("boxed_eq", []string{"Iface", "Iface"}, "Bool")
	return ite(eq(a.T, b.T), "true", ite(or(not(eq("(itag "+a.T+")", "(itag "+b.T+")")), not("(tag_boxed (itag "+a.T+"))")), "false", "(boxed_eq "+a.T+" "+b.T+")"))
}

func (in *inst) convert(n *vnode, st *State, v Val, from, to types.Type) Val {
	fv := in.fv
	k, w, srt := kindOf(to)
	out := Val{K: k, W: w, Sort: srt, Typ: to}
	switch {
	case v.K == KBV && k == KBV:
		switch {
		case w == v.W:
			out.T = v.T
		case w < v.W:
			out.T = fmt.Sprintf("((_ extract %d 0) %s)", w-1, v.T)
		case isSigned(from):
			out.T = fmt.Sprintf("((_ sign_extend %d) %s)", w-v.W, v.T)
		default:
			out.T = fmt.Sprintf("((_ zero_extend %d) %s)", w-v.W, v.T)
		}
		out.T = fv.def("cv", bvSort(w), out.T)
	case v.K == KBV && k == KFP:
		if isSigned(from) {
			out.T = fmt.Sprintf("((_ to_fp %s) RNE %s)", fpDims(w), v.T)
		} else {
			out.T = fmt.Sprintf("((_ to_fp_unsigned %s) RNE %s)", fpDims(w), v.T)
		}
		out.T = fv.def("cv", fpSort(w), out.T)
	case v.K == KFP && k == KBV:
		// Go: out-of-range conversions are implementation-defined (no panic).
		uf := fmt.Sprintf("f2i_%d_%d_%v", v.W, w, isSigned(to))
		fv.declUF(uf, []string{fpSort(v.W)}, bvSort(w))
		out.T = fv.def("cv", bvSort(w), "("+uf+" "+v.T+")")
		if fv.boundDepth == 0 {
			var conv, lo, hi string
			if isSigned(to) {
				conv = fmt.Sprintf("((_ fp.to_sbv %d) RTZ %s)", w, v.T)
				lo = fmt.Sprintf("((_ to_fp %s) RNE %s)", fpDims(v.W), bvConst(w, uint64(1)<<uint(w-1)))
				hi = fmt.Sprintf("(fp.neg %s)", lo)
				fv.assume("true", implies(and("(fp.geq "+v.T+" "+lo+")", "(fp.lt "+v.T+" "+hi+")"), eq(out.T, conv)))
			} else {
				conv = fmt.Sprintf("((_ fp.to_ubv %d) RTZ %s)", w, v.T)
				fv.assume("true", implies(and("(fp.geq "+v.T+" "+fpLit(v.W, 0)+")", "(fp.lt "+v.T+" "+fpLit(v.W, float64(uint64(1)<<63)*2)+")"), eq(out.T, conv)))
			}
		}
	case v.K == KFP && k == KFP:
		if v.W == w {
			out.T = v.T
		} else {
			out.T = fmt.Sprintf("((_ to_fp %s) RNE %s)", fpDims(w), v.T)
		}
	case v.K == KStr && k == KStr:
		out.T = v.T
	case v.K == KBV && k == KStr: // string(rune)
		fv.declUF("s_of_rune", []string{bvSort(64)}, "Str")
		r := fv.defAlways("s", "Str", "(s_of_rune "+in.toBV64(v, from)+")")
		fv.assume("true", and("(bvsle #x0000000000000001 (s_len "+r+"))", "(bvsle (s_len "+r+") #x0000000000000004)"))
		out.T = r
	case v.K == KSlice && k == KStr: // string([]byte) / string([]rune)
		et := types.Unalias(from).Underlying().(*types.Slice).Elem()
		_, ew, _ := kindOf(et)
		h := fv.heapOf(st, leafKey(et), bvSort(ew))
		uf := fmt.Sprintf("s_of_slice%d", ew)
		fv.declUF(uf, []string{"(Array Loc " + bvSort(ew) + ")", "Slice"}, "Str")
		r := fv.defAlways("s", "Str", "("+uf+" "+h.term+" "+v.T+")")
		if ew == 8 {
			fv.assume("true", eq("(s_len "+r+")", "(slen "+v.T+")"))
		} else {
			fv.assume("true", and("(bvsle (slen "+v.T+") (s_len "+r+"))", "(bvsle (s_len "+r+") (bvmul #x0000000000000004 (slen "+v.T+")))"))
		}
		out.T = r
	case v.K == KStr && k == KSlice: // []byte(s) / []rune(s)
		et := types.Unalias(to).Underlying().(*types.Slice).Elem()
		_, ew, _ := kindOf(et)
		arr := fv.newObject(st)
		ln := fv.decl("len", bvSort(64))
		if ew == 8 {
			fv.assume("true", eq(ln, "(s_len "+v.T+")"))
			s := v.T
			fv.havocHeap(st, leafKey(et), bvSort(8), func(l string) string { return and("(isLElem "+l+")", eq("(epar "+l+")", arr)) },
				func(l string) string { return "(s_at " + s + " (eidx " + l + "))" })
		} else {
			// []rune(s): length and elements are the uninterpreted decoding s_nrunes / s_runeat
			fv.assume("true", and(eq(ln, "(s_nrunes "+v.T+")"), "(bvsle #x0000000000000000 "+ln+")", "(bvsle "+ln+" (s_len "+v.T+"))",
				implies("(bvsgt (s_len "+v.T+") #x0000000000000000)", "(bvsgt "+ln+" #x0000000000000000)"),
				"(bvsle (s_len "+v.T+") (bvmul #x0000000000000004 "+ln+"))"))
			s := v.T
			fv.havocHeap(st, leafKey(et), bvSort(ew), func(l string) string { return and("(isLElem "+l+")", eq("(epar "+l+")", arr)) },
				func(l string) string { return "(s_runeat " + s + " (eidx " + l + "))" })
		}
		cp := fv.decl("cap", bvSort(64))
		fv.assume("true", and("(bvsle "+ln+" "+cp+")", "(bvslt "+cp+" #x0000400000000000)"))
		out.T = fv.def("mk", "Slice", "(mkslice "+arr+" #x0000000000000000 "+ln+" "+cp+")")
	case v.K == KLoc && k == KLoc:
		out.T = v.T
	default:
		fv.outOfSubset(fmt.Sprintf("convert %s -> %s", from, to))
		return fv.unknown(st, to, "cv")
	}
	return out
}

func fpDims(w int) string {
	if w == 32 {
		return "8 24"
	}
	return "11 53"
}

// makeInterface wraps a concrete value. Pointer-like dynamic types store the
// pointer; others are boxed in a fresh object.
func (in *inst) makeInterface(st *State, v Val, from, to types.Type) Val {
	fv := in.fv
	tag := fv.eng.tagOf(from)
	var data string
	if v.K == KLoc {
		data = v.T
		// a nil pointer in an interface is a non-nil interface; Tengo objects
		// are never typed-nil, which later code relies on via type invariants.
	} else {
		data = fv.newObject(st)
		fv.store(st, data, from, v)
	}
	return Val{K: KIface, T: fv.def("if", "Iface", fmt.Sprintf("(mkiface %d %s)", tag, data)), Typ: to}
}

func (in *inst) typeAssert(n *vnode, st *State, x *ssa.TypeAssert) {
	fv := in.fv
	v := in.lookup(n, x.X)
	var ok string
	var res Val
	if types.IsInterface(x.AssertedType) {
		it := x.AssertedType.Underlying().(*types.Interface)
		if it.NumMethods() == 0 {
			ok = not(eq("(itag "+v.T+")", "0"))
		} else {
			ok = and(not(eq("(itag "+v.T+")", "0")), "("+fv.implPred(x.AssertedType)+" (itag "+v.T+"))")
			// static knowledge: if the operand's interface type implements the target, any non-nil value passes
			if sit, isI := x.X.Type().Underlying().(*types.Interface); isI && types.Implements(x.X.Type(), it) && sit.NumMethods() > 0 {
				ok = not(eq("(itag "+v.T+")", "0"))
			}
		}
		res = Val{K: KIface, T: v.T, Typ: x.AssertedType}
	} else {
		tag := fv.eng.tagOf(x.AssertedType)
		ok = eq("(itag "+v.T+")", fmt.Sprint(tag))
		if k := st.tags[v.T]; k == tag {
			ok = "true"
		} else if k > 0 || k == -tag {
			ok = "false"
		}
		res = in.unbox(st, v, x.AssertedType)
		if ok != "true" && ok != "false" {
			ok = fv.defAlways("ok", "Bool", ok)
			fv.okTerms[ok] = okFact{iface: v.T, tag: tag}
		}
	}
	ok = fv.def("ok", "Bool", ok)
	if x.CommaOk {
		// on failure the value is the zero value
		z := fv.zeroVal(x.AssertedType)
		r := fv.mergeVals([]string{ok, "true"}, []Val{res, z})
		in.setVal(n, x, Val{K: KTuple, Fs: []Val{r, {K: KBool, T: ok, Typ: types.Typ[types.Bool]}}, Typ: x.Type()})
		return
	}
	in.safety(n, st, "typeassert", ok, x.Pos())
	in.setVal(n, x, res)
}

// unbox extracts the concrete value of dynamic type t from an interface.
func (in *inst) unbox(st *State, v Val, t types.Type) Val {
	fv := in.fv
	k, _, _ := kindOf(t)
	if k == KLoc {
		pv := Val{K: KLoc, T: fv.def("p", "Loc", "(idat "+v.T+")"), Typ: t}
		if fv.boundDepth == 0 {
			fv.assumePtrType(eq("(itag "+v.T+")", fmt.Sprint(fv.eng.tagOf(t))), pv)
		}
		return pv
	}
	save := fv.boundDepth
	r := fv.load(st, "(idat "+v.T+")", t)
	fv.boundDepth = save
	return r
}

func (in *inst) slice(n *vnode, st *State, x *ssa.Slice) {
	fv := in.fv
	base := in.lookup(n, x.X)
	z := "#x0000000000000000"
	lo := z
	if x.Low != nil {
		lo = in.toBV64(in.lookup(n, x.Low), x.Low.Type())
	}
	switch t := types.Unalias(x.X.Type()).Underlying().(type) {
	case *types.Basic: // string
		hi := "(s_len " + base.T + ")"
		if x.High != nil {
			hi = in.toBV64(in.lookup(n, x.High), x.High.Type())
		}
		in.safety(n, st, "slice", and("(bvsle "+z+" "+lo+")", "(bvsle "+lo+" "+hi+")", "(bvsle "+hi+" (s_len "+base.T+"))"), x.Pos())
		r := fv.defAlways("s", "Str", "(s_sub "+base.T+" "+lo+" "+hi+")")
		fv.assume(st.reach, eq("(s_len "+r+")", "(bvsub "+hi+" "+lo+")"))
		fv.assume(st.reach, implies(and(eq(lo, z), eq(hi, "(s_len "+base.T+")")), eq(r, base.T)))
		in.setVal(n, x, Val{K: KStr, T: r, Typ: x.Type()})
	case *types.Slice:
		hi := "(slen " + base.T + ")"
		if x.High != nil {
			hi = in.toBV64(in.lookup(n, x.High), x.High.Type())
		}
		mx := "(scap " + base.T + ")"
		if x.Max != nil {
			mx = in.toBV64(in.lookup(n, x.Max), x.Max.Type())
			in.safety(n, st, "slice", and("(bvsle "+hi+" "+mx+")", "(bvsle "+mx+" (scap "+base.T+"))"), x.Pos())
		}
		in.safety(n, st, "slice", and("(bvsle "+z+" "+lo+")", "(bvsle "+lo+" "+hi+")", "(bvsle "+hi+" (scap "+base.T+"))"), x.Pos())
		r := fmt.Sprintf("(mkslice (sarr %s) (bvadd (soff %s) %s) (bvsub %s %s) (bvsub %s %s))", base.T, base.T, lo, hi, lo, mx, lo)
		// slicing a nil slice yields nil
		r = ite(eq("(sarr "+base.T+")", "LNil"), "nilslice", r)
		in.setVal(n, x, Val{K: KSlice, T: fv.defAlways("sl", "Slice", r), Typ: x.Type()})
	case *types.Pointer: // *array
		arr := t.Elem().Underlying().(*types.Array)
		ln := bv64(arr.Len())
		hi := ln
		if x.High != nil {
			hi = in.toBV64(in.lookup(n, x.High), x.High.Type())
		}
		mx := ln
		if x.Max != nil {
			mx = in.toBV64(in.lookup(n, x.Max), x.Max.Type())
		}
		in.safety(n, st, "nil", not(eq(base.T, "LNil")), x.Pos())
		in.safety(n, st, "slice", and("(bvsle "+z+" "+lo+")", "(bvsle "+lo+" "+hi+")", "(bvsle "+hi+" "+mx+")", "(bvsle "+mx+" "+ln+")"), x.Pos())
		r := fmt.Sprintf("(mkslice %s %s (bvsub %s %s) (bvsub %s %s))", base.T, lo, hi, lo, mx, lo)
		in.setVal(n, x, Val{K: KSlice, T: fv.defAlways("sl", "Slice", r), Typ: x.Type()})
	default:
		fv.outOfSubset("slice of " + x.X.Type().String())
	}
}

// zeroRegion: all elements of a fresh array hold the zero value.
func (in *inst) zeroRegion(st *State, arr string, et types.Type) {
	fv := in.fv
	in.forEachLeaf(et, func(path []int, lt types.Type) {
		z := fv.zeroVal(lt)
		p := append([]int(nil), path...)
		fv.havocHeap(st, leafKey(lt), z.sortOf(), func(l string) string { return elemLeafOf(l, arr, p) }, func(l string) string { return z.T })
	})
}

// forEachLeaf enumerates the scalar leaves of a (possibly struct) type.
func (in *inst) forEachLeaf(t types.Type, f func(path []int, lt types.Type)) {
	var rec func(t types.Type, path []int)
	rec = func(t types.Type, path []int) {
		if _, opq := isOpaque(t); !opq {
			if s, ok := types.Unalias(t).Underlying().(*types.Struct); ok {
				for i := 0; i < s.NumFields(); i++ {
					rec(s.Field(i).Type(), append(append([]int(nil), path...), i))
				}
				return
			}
			if _, ok := types.Unalias(t).Underlying().(*types.Array); ok {
				in.fv.note("array-typed slice element: contents unconstrained")
				return
			}
		}
		f(path, t)
	}
	rec(t, nil)
}

// elemLeafOf: l is the leaf at field path p of some element of array arr.
func elemLeafOf(l, arr string, path []int) string {
	// l = LField(...LField(LElem(arr, i), p0)..., pk)
	cur := l
	var conds []string
	for i := len(path) - 1; i >= 0; i-- {
		conds = append(conds, "(isLField "+cur+")", eq("(fidx "+cur+")", fmt.Sprint(path[i])))
		cur = "(fpar " + cur + ")"
	}
	conds = append(conds, "(isLElem "+cur+")", eq("(epar "+cur+")", arr))
	return and(conds...)
}

// siteKey: a per-function ordinal of the store site (stable under edits elsewhere in the file).
func (in *inst) siteKey(pos token.Pos, n *vnode) string {
	fv := in.fv
	fv.siteN++
	k := fmt.Sprintf("%d", fv.siteN)
	if in.fn != fv.top {
		k = in.fn.Name() + "." + k
	}
	if n.ctx != "" {
		k += "[" + n.ctx + "]"
	}
	return k
}

// assumeFieldInv: a value loaded from a field under invariant satisfies it.
func (fv *FnVC) assumeFieldInv(st *State, fa *ssa.FieldAddr, v Val) {
	fi, _ := fv.eng.fieldInvOf(fa)
	if fi == nil || fv.boundDepth > 0 || strings.HasPrefix(fi.Clause.Name, "nowrite") {
		return
	}
	ce := &cenv{fv: fv, vars: map[string]Val{"v": v}, st: st, pkg: fv.eng.tpkgs[fi.PkgPath], allocOld: fv.allocEntry, where: "fieldinv " + fi.Type + "." + fi.Field}
	t := ce.evalAssume(st.reach, fi.Clause.Expr)
	if ce.err != nil {
		fv.specErr(ce.err)
		return
	}
	fv.assume(st.reach, t)
}

// tableRow: the value of row idx of a constant table. The row is a slice in
// immutable global storage; its length and elements are given by the spec
// functions generated from the table's source literal.
func (in *inst) tableRow(n *vnode, st *State, ti *tableInfo, ia *ssa.IndexAddr, t types.Type) Val {
	fv := in.fv
	idx := in.toBV64(in.lookup(n, ia.Index), ia.Index.Type())
	arrT := ia.X.Type().(*types.Pointer).Elem().Underlying().(*types.Array)
	in.safety(n, st, "index", and("(bvsle #x0000000000000000 "+idx+")", "(bvslt "+idx+" "+bv64(arrT.Len())+")"), ia.Pos())
	sl, ok := types.Unalias(t).Underlying().(*types.Slice)
	if !ok {
		fv.outOfSubset("table with non-slice rows")
		return fv.unknown(st, t, "row")
	}
	row := fv.unknown(st, t, "row")
	ln := "(spec_" + ti.name + "_len " + idx + ")"
	fv.assume(st.reach, and(eq("(slen "+row.T+")", ln), eq("(scap "+row.T+")", ln), eq("(soff "+row.T+")", "#x0000000000000000"),
		not(eq("(sarr "+row.T+")", "LNil")), "(< (root (sarr "+row.T+")) 0)"))
	zv := fv.zeroVal(sl.Elem())
	h := fv.heapOf(st, leafKey(sl.Elem()), zv.sortOf())
	for j := 0; j < ti.maxLen; j++ {
		jb := bv64(int64(j))
		el := fv.loadRaw(h, lelem("(sarr "+row.T+")", jb))
		want := "(spec_" + ti.name + "_at " + idx + " " + jb + ")"
		if zv.W != 64 {
			want = fmt.Sprintf("((_ extract %d 0) %s)", zv.W-1, want)
		}
		fv.assume(st.reach, implies("(bvslt "+jb+" "+ln+")", eq(el, want)))
	}
	fv.note("constant table " + ti.name + " read from its source literal (never written outside init: checked)")
	return row
}

// localOnly: the address of the allocation is used only to load / store
// through it (directly or via field/element addresses), or is captured by
// closures that are only deferred or called directly. Such a cell is not
// reachable from any callee with unknown effects.
func localOnly(a *ssa.Alloc) bool {
	seen := map[ssa.Value]bool{}
	var ok func(v ssa.Value) bool
	ok = func(v ssa.Value) bool {
		if seen[v] {
			return true
		}
		seen[v] = true
		refs := v.Referrers()
		if refs == nil {
			return false
		}
		for _, r := range *refs {
			switch u := r.(type) {
			case *ssa.DebugRef:
			case *ssa.UnOp:
				if u.Op != token.MUL {
					return false
				}
			case *ssa.Store:
				if u.Val == v {
					return false
				}
			case *ssa.FieldAddr:
				if !ok(u) {
					return false
				}
			case *ssa.IndexAddr:
				if !ok(u) {
					return false
				}
			case *ssa.MakeClosure:
				// the closure may only be deferred or called on the spot
				crefs := u.Referrers()
				if crefs == nil {
					return false
				}
				for _, cr := range *crefs {
					switch cu := cr.(type) {
					case *ssa.Defer:
						if cu.Call.Value != ssa.Value(u) {
							return false
						}
					case *ssa.Call:
						if cu.Call.Value != ssa.Value(u) {
							return false
						}
					case *ssa.DebugRef:
					default:
						return false
					}
				}
				// inside the closure the captured address must be used locally as well
				fn := u.Fn.(*ssa.Function)
				for i, b := range u.Bindings {
					if b == v && i < len(fn.FreeVars) {
						if !ok(fn.FreeVars[i]) {
							return false
						}
					}
				}
			default:
				return false
			}
		}
		return true
	}
	return ok(a)
}

// smallReturnBlock: a block that only returns (after running defers) and is
// the join of many paths is duplicated per predecessor, so postconditions are
// checked per path instead of on one large merged state.
func smallReturnBlock(b *ssa.BasicBlock) bool {
	if len(b.Preds) < 3 || len(b.Instrs) == 0 || len(b.Instrs) > 8 {
		return false
	}
	if _, ok := b.Instrs[len(b.Instrs)-1].(*ssa.Return); !ok {
		return false
	}
	for _, ins := range b.Instrs {
		switch ins.(type) {
		case *ssa.Return, *ssa.RunDefers, *ssa.UnOp, *ssa.DebugRef, *ssa.Phi, *ssa.Store:
		default:
			return false
		}
	}
	return true
}

// sliceOrigin names the struct field a slice value was just read from
// (canonType(T)#field), or "" when the slice has another origin.
func sliceOrigin(v ssa.Value) string {
	u, ok := v.(*ssa.UnOp)
	if !ok || u.Op != token.MUL {
		return ""
	}
	fa, ok := u.X.(*ssa.FieldAddr)
	if !ok {
		return ""
	}
	pt, ok := types.Unalias(fa.X.Type()).Underlying().(*types.Pointer)
	if !ok {
		return ""
	}
	st, ok := pt.Elem().Underlying().(*types.Struct)
	if !ok || fa.Field >= st.NumFields() {
		return ""
	}
	return canonType(pt.Elem()) + "#" + st.Field(fa.Field).Name()
}

// posOf: source position of a branch (the nearest positioned instruction before it in its block).
func (in *inst) posOf(x ssa.Instruction, n *vnode) string {
	b := x.Block()
	for i := len(b.Instrs) - 1; i >= 0; i-- {
		if p := b.Instrs[i].Pos(); p.IsValid() {
			ps := in.fv.eng.prog.Fset.Position(p)
			return fmt.Sprintf("%s:%d (%s block %d)", strings.TrimPrefix(ps.Filename, in.fv.eng.repo+"/"), ps.Line, in.fn.Name(), b.Index)
		}
	}
	if c, ok := x.(*ssa.If); ok {
		if p := c.Cond.Pos(); p.IsValid() {
			ps := in.fv.eng.prog.Fset.Position(p)
			return fmt.Sprintf("%s:%d (%s block %d)", strings.TrimPrefix(ps.Filename, in.fv.eng.repo+"/"), ps.Line, in.fn.Name(), b.Index)
		}
	}
	return fmt.Sprintf("(%s block %d)", in.fn.Name(), b.Index)
}
