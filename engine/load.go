package main

import (
	"fmt"
	"go/ast"
	"go/constant"
	"go/types"
	"os"
	"path/filepath"
	"regexp"
	"sort"
	"strconv"
	"strings"

	"golang.org/x/tools/go/packages"
	"golang.org/x/tools/go/ssa"
	"golang.org/x/tools/go/ssa/ssautil"
)

const modPath = "github.com/d5/tengo/v2"

// Engine holds the loaded program and all contracts.
type Engine struct {
	repo      string
	specDir   string
	prog      *ssa.Program
	pkgs      map[string]*ssa.Package // by import path
	tpkgs     map[string]*types.Package
	contracts map[*ssa.Function]*Contract
	ifaceCt   map[string]*Contract // "pkgpath.Iface.Method"
	allCts    []*Contract
	ctFunc    map[*Contract]*ssa.Function
	sentinels map[*ssa.Global]*sentinel
	modFuncs  []*ssa.Function // all functions of the module (non-test), deterministic order
	tags      map[string]int
	tagTypes  []types.Type
	specSigs  map[string]*specSig
	specText  string
	externals map[string]*Contract
	loadErrs  []string
	ifaceMeths []*ifaceMeth
	known      []*KnownFinding
	fieldInvs  map[string]*FieldInv // canon struct type + "#" + field index
	fieldSitesOutside map[string][]string
	immutables []*FieldInv
	nilable    map[string]bool // canonType(T)#field: []Object fields whose elements may be Go nil
	tables     map[*ssa.Global]*tableInfo
	tableText  string
	astPkgs    map[string]*packages.Package
	fieldSites map[string][]string  // inventory: invariant key -> functions containing a store site
}

type ifaceMeth struct {
	ct    *Contract
	iface types.Type
	meth  *types.Func
}

type sentinel struct {
	g     *ssa.Global
	id    int    // fixed negative root id of the pointee
	tag   string // canonical dynamic type of the stored value
	isPtr bool   // global is of pointer type (not interface)
}

func shortPkg(path string) string {
	if path == modPath {
		return "tengo"
	}
	return path[strings.LastIndex(path, "/")+1:]
}

func loadEngine(repo string) (*Engine, error) {
	cfg := &packages.Config{Mode: packages.LoadAllSyntax, Dir: repo, BuildFlags: []string{"-tags=verif"},
		Env: append(os.Environ(), "GOFLAGS=-mod=mod", "GOPROXY=off", "GOSUMDB=off", "GOTOOLCHAIN=local")}
	pkgs, err := packages.Load(cfg, "./...")
	if err != nil {
		return nil, err
	}
	e := &Engine{repo: repo, pkgs: map[string]*ssa.Package{}, tpkgs: map[string]*types.Package{},
		contracts: map[*ssa.Function]*Contract{}, ifaceCt: map[string]*Contract{}, ctFunc: map[*Contract]*ssa.Function{},
		sentinels: map[*ssa.Global]*sentinel{}, tags: map[string]int{}, externals: map[string]*Contract{}}
	e.astPkgs = map[string]*packages.Package{}
	for _, p := range pkgs {
		e.astPkgs[p.PkgPath] = p
		for _, er := range p.Errors {
			e.loadErrs = append(e.loadErrs, er.Error())
		}
	}
	if len(e.loadErrs) > 0 {
		return e, fmt.Errorf("package load errors: %s", strings.Join(e.loadErrs, "; "))
	}
	prog, spkgs := ssautil.AllPackages(pkgs, ssa.InstantiateGenerics|ssa.GlobalDebug)
	prog.Build()
	e.prog = prog
	for _, sp := range spkgs {
		if sp != nil {
			e.pkgs[sp.Pkg.Path()] = sp
		}
	}
	for _, sp := range prog.AllPackages() {
		e.pkgs[sp.Pkg.Path()] = sp
		e.tpkgs[sp.Pkg.Path()] = sp.Pkg
	}
	// module functions, deterministic order
	for f := range ssautil.AllFunctions(prog) {
		if f.Pkg != nil && strings.HasPrefix(f.Pkg.Pkg.Path(), modPath) && f.Synthetic == "" {
			e.modFuncs = append(e.modFuncs, f)
		} else if f.Pkg == nil && f.Parent() != nil {
			p := f
			for p.Parent() != nil {
				p = p.Parent()
			}
			if p.Pkg != nil && strings.HasPrefix(p.Pkg.Pkg.Path(), modPath) {
				e.modFuncs = append(e.modFuncs, f)
			}
		}
	}
	sort.Slice(e.modFuncs, func(i, j int) bool { return e.modFuncs[i].String() < e.modFuncs[j].String() })
	// contract files
	for _, p := range pkgs {
		if !strings.HasPrefix(p.PkgPath, modPath) {
			continue
		}
		for _, gf := range p.GoFiles {
			if filepath.Base(gf) != "verif_contracts.go" {
				continue
			}
			cf, err := parseContractFile(gf, p.PkgPath)
			if err != nil {
				return e, err
			}
			for _, c := range cf.Contracts {
				if err := e.bindContract(c); err != nil {
					return e, err
				}
			}
			for _, g := range cf.Globals {
				if err := e.bindSentinel(g); err != nil {
					return e, err
				}
			}
			for _, tb := range cf.Tables {
				if err := e.bindTable(tb); err != nil {
					return e, err
				}
			}
			for _, nl := range cf.Nilables {
				tf := strings.SplitN(nl.Name, ".", 2)
				var tn types.Object
				if len(tf) == 2 {
					tn = e.tpkgs[nl.PkgPath].Scope().Lookup(tf[0])
				}
				if tn == nil {
					return e, fmt.Errorf("%s:%d: bad nilable %q", nl.File, nl.Line, nl.Name)
				}
				st, ok := tn.Type().Underlying().(*types.Struct)
				found := false
				for i := 0; ok && i < st.NumFields(); i++ {
					if st.Field(i).Name() == tf[1] {
						found = true
					}
				}
				if !found {
					return e, fmt.Errorf("%s:%d: no field %s", nl.File, nl.Line, nl.Name)
				}
				if e.nilable == nil {
					e.nilable = map[string]bool{}
				}
				e.nilable[canonType(tn.Type())+"#"+tf[1]] = true
			}
			for _, fi := range cf.FieldInvs {
				tn := e.tpkgs[fi.PkgPath].Scope().Lookup(fi.Type)
				if tn == nil {
					return e, fmt.Errorf("%s:%d: type %s not found", fi.Clause.File, fi.Clause.Line, fi.Type)
				}
				st, ok := tn.Type().Underlying().(*types.Struct)
				if !ok {
					return e, fmt.Errorf("%s:%d: %s is not a struct", fi.Clause.File, fi.Clause.Line, fi.Type)
				}
				idx := -1
				for i := 0; i < st.NumFields(); i++ {
					if st.Field(i).Name() == fi.Field {
						idx = i
					}
				}
				if idx < 0 {
					return e, fmt.Errorf("%s:%d: no field %s.%s", fi.Clause.File, fi.Clause.Line, fi.Type, fi.Field)
				}
				if e.fieldInvs == nil {
					e.fieldInvs = map[string]*FieldInv{}
				}
				k := fmt.Sprintf("%s#%d", canonType(tn.Type()), idx)
				if fi.Immutable {
					k += "#immutable"
					fi.Index = idx
					fi.TypeID = e.tagOf(tn.Type())
					if kk, _, _ := kindOf(st.Field(idx).Type()); kk == KStruct {
						return e, fmt.Errorf("%s:%d: immutable on aggregate field not supported", fi.Clause.File, fi.Clause.Line)
					}
					fi.LeafKey = canonType(st.Field(idx).Type())
					e.immutables = append(e.immutables, fi)
				}
				e.fieldInvs[k] = fi
			}
		}
	}
	e.synthRefinements()
	e.synthFieldSites()
	return e, nil
}

// synthRefinements gives every method of the module that implements an
// interface method under contract a (possibly empty) contract of its own, so
// that it is verified against the interface-level clauses.
func (e *Engine) synthRefinements() {
	for _, f := range e.modFuncs {
		if f.Signature.Recv() == nil || f.Blocks == nil || e.contracts[f] != nil {
			continue
		}
		for _, im := range e.ifaceMeths {
			if im.meth.Name() == f.Name() && types.Implements(f.Signature.Recv().Type(), im.iface.Underlying().(*types.Interface)) {
				c := &Contract{Ref: funcKey(f), PkgPath: funcPkg(f).Path(), File: im.ct.File, Line: im.ct.Line, Modes: map[string]string{}, Props: nil, Synth: true}
				e.contracts[f] = c
				e.ctFunc[c] = f
				e.allCts = append(e.allCts, c)
				break
			}
		}
	}
}

// fieldInvOf returns the invariant attached to the field addressed by fa.
func (e *Engine) fieldInvOf(fa *ssa.FieldAddr) (*FieldInv, string) {
	if len(e.fieldInvs) == 0 {
		return nil, ""
	}
	pt, ok := types.Unalias(fa.X.Type()).Underlying().(*types.Pointer)
	if !ok {
		return nil, ""
	}
	k := fmt.Sprintf("%s#%d", canonType(pt.Elem()), fa.Field)
	return e.fieldInvs[k], k
}

func (e *Engine) immutableOf(fa *ssa.FieldAddr) *FieldInv {
	if len(e.immutables) == 0 {
		return nil
	}
	pt, ok := types.Unalias(fa.X.Type()).Underlying().(*types.Pointer)
	if !ok {
		return nil
	}
	return e.fieldInvs[fmt.Sprintf("%s#%d#immutable", canonType(pt.Elem()), fa.Field)]
}

// synthFieldSites: every function of the module that stores to a field under
// invariant is put under (an at least empty) contract, so that the store is
// an obligation; the inventory of sites is kept for the evidence.
func (e *Engine) synthFieldSites() {
	e.fieldSites = map[string][]string{}
	e.fieldSitesOutside = map[string][]string{}
	for _, f := range e.modFuncs {
		var hit []*FieldInv
		for _, b := range f.Blocks {
			for _, in := range b.Instrs {
				st, ok := in.(*ssa.Store)
				if !ok {
					continue
				}
				fa, ok := st.Addr.(*ssa.FieldAddr)
				if !ok {
					continue
				}
				if fi := e.immutableOf(fa); fi != nil {
					hit = append(hit, fi)
					e.fieldSites[fi.Type+"."+fi.Field+" (immutable)"] = append(e.fieldSites[fi.Type+"."+fi.Field+" (immutable)"], fmt.Sprintf("%s:%d", funcKey(f), e.prog.Fset.Position(st.Pos()).Line))
				}
				if fi, k := e.fieldInvOf(fa); fi != nil {
					if funcPkg(f).Path() != fi.PkgPath {
						// sites outside the package that owns the invariant are inventoried but not claimed
						e.fieldSitesOutside[k] = append(e.fieldSitesOutside[k], fmt.Sprintf("%s:%d", funcKey(f), e.prog.Fset.Position(st.Pos()).Line))
						continue
					}
					hit = append(hit, fi)
					e.fieldSites[k] = append(e.fieldSites[k], fmt.Sprintf("%s:%d", funcKey(f), e.prog.Fset.Position(st.Pos()).Line))
				}
			}
		}
		if len(hit) == 0 {
			continue
		}
		c := e.contracts[f]
		if c == nil {
			c = &Contract{Ref: funcKey(f), PkgPath: funcPkg(f).Path(), File: hit[0].Clause.File, Line: hit[0].Clause.Line, Modes: map[string]string{}, Synth: true}
			e.contracts[f] = c
			e.ctFunc[c] = f
			e.allCts = append(e.allCts, c)
		}
		for _, fi := range hit {
			for _, p := range fi.Clause.Props {
				if !hasProp(c.SiteProps, p) {
					c.SiteProps = append(c.SiteProps, p)
				}
			}
		}
	}
}

// refinedBy returns the interface-method contracts a method must refine.
func (e *Engine) refinedBy(f *ssa.Function) []*ifaceMeth {
	var out []*ifaceMeth
	if f.Signature.Recv() == nil {
		return nil
	}
	for _, im := range e.ifaceMeths {
		if im.meth.Name() == f.Name() && types.Implements(f.Signature.Recv().Type(), im.iface.Underlying().(*types.Interface)) {
			out = append(out, im)
		}
	}
	return out
}

var methRe = regexp.MustCompile(`^\((\*?)([A-Za-z_][A-Za-z0-9_]*)\)\.([A-Za-z_][A-Za-z0-9_]*)((\$\d+)*)$`)
var funcRe = regexp.MustCompile(`^([A-Za-z_][A-Za-z0-9_]*)((\$\d+)*)$`)
var ifaceRe = regexp.MustCompile(`^([A-Za-z_][A-Za-z0-9_]*)\.([A-Za-z_][A-Za-z0-9_]*)$`)
var extRe = regexp.MustCompile(`^extern\s+(.+)$`)

func (e *Engine) bindContract(c *Contract) error {
	e.allCts = append(e.allCts, c)
	if c.IsIface {
		m := ifaceRe.FindStringSubmatch(c.Ref)
		if m == nil {
			return fmt.Errorf("%s:%d: bad interface method reference %q", c.File, c.Line, c.Ref)
		}
		tn := e.tpkgs[c.PkgPath].Scope().Lookup(m[1])
		if tn == nil {
			tn = types.Universe.Lookup(m[1]) // error
			if tn == nil {
				return fmt.Errorf("%s:%d: interface %s not found", c.File, c.Line, m[1])
			}
			e.ifaceCt[m[1]+"."+m[2]] = c
		} else {
			e.ifaceCt[c.PkgPath+"."+m[1]+"."+m[2]] = c
		}
		it, ok := tn.Type().Underlying().(*types.Interface)
		if !ok {
			return fmt.Errorf("%s:%d: %s is not an interface", c.File, c.Line, m[1])
		}
		var mf *types.Func
		for i := 0; i < it.NumMethods(); i++ {
			if it.Method(i).Name() == m[2] {
				mf = it.Method(i)
			}
		}
		if mf == nil {
			return fmt.Errorf("%s:%d: interface %s has no method %s", c.File, c.Line, m[1], m[2])
		}
		e.ifaceMeths = append(e.ifaceMeths, &ifaceMeth{ct: c, iface: tn.Type(), meth: mf})
		return nil
	}
	if m := extRe.FindStringSubmatch(c.Ref); m != nil {
		// external function: extern strconv.FormatInt / extern (time.Time).Before
		e.externals[strings.TrimSpace(m[1])] = c
		return nil
	}
	f, err := e.resolveFunc(c.PkgPath, c.Ref)
	if err != nil {
		return fmt.Errorf("%s:%d: %v", c.File, c.Line, err)
	}
	if old, dup := e.contracts[f]; dup {
		return fmt.Errorf("%s:%d: duplicate contract for %s (first at line %d)", c.File, c.Line, c.Ref, old.Line)
	}
	e.contracts[f] = c
	e.ctFunc[c] = f
	return nil
}

func (e *Engine) resolveFunc(pkgPath, ref string) (*ssa.Function, error) {
	sp := e.pkgs[pkgPath]
	if sp == nil {
		return nil, fmt.Errorf("package %s not loaded", pkgPath)
	}
	var f *ssa.Function
	var anon string
	if m := methRe.FindStringSubmatch(ref); m != nil {
		tn := sp.Pkg.Scope().Lookup(m[2])
		if tn == nil {
			return nil, fmt.Errorf("type %s not found in %s", m[2], pkgPath)
		}
		var recv types.Type = tn.Type()
		if m[1] == "*" {
			recv = types.NewPointer(recv)
		}
		sel := e.prog.MethodSets.MethodSet(recv).Lookup(sp.Pkg, m[3])
		if sel == nil {
			return nil, fmt.Errorf("method %s not found", ref)
		}
		f = e.prog.MethodValue(sel)
		anon = m[4]
	} else if m := funcRe.FindStringSubmatch(ref); m != nil {
		f = sp.Func(m[1])
		anon = m[2]
	}
	if f == nil {
		return nil, fmt.Errorf("function %q not found in %s", ref, pkgPath)
	}
	for _, p := range strings.Split(anon, "$") {
		if p == "" {
			continue
		}
		n, _ := strconv.Atoi(p)
		if n < 1 || n > len(f.AnonFuncs) {
			return nil, fmt.Errorf("%s: closure $%d not found", ref, n)
		}
		f = f.AnonFuncs[n-1]
	}
	return f, nil
}

// funcKey is the stable display name of a function: "tengo.(*Int).BinaryOp".
func funcKey(f *ssa.Function) string {
	if f == nil {
		return "<nil>"
	}
	if f.Parent() != nil {
		for i, a := range f.Parent().AnonFuncs {
			if a == f {
				return fmt.Sprintf("%s$%d", funcKey(f.Parent()), i+1)
			}
		}
	}
	pk := ""
	if f.Pkg != nil {
		pk = shortPkg(f.Pkg.Pkg.Path()) + "."
	} else if f.Object() != nil && f.Object().Pkg() != nil {
		pk = shortPkg(f.Object().Pkg().Path()) + "."
	}
	if recv := f.Signature.Recv(); recv != nil {
		t := recv.Type()
		star := ""
		if p, ok := t.(*types.Pointer); ok {
			star = "*"
			t = p.Elem()
		}
		name := canonType(t)
		if i := strings.LastIndex(name, "."); i >= 0 {
			name = name[i+1:]
		}
		return fmt.Sprintf("%s(%s%s).%s", pk, star, name, f.Name())
	}
	return pk + f.Name()
}

// tagOf returns the dynamic-type tag id (>0) of a concrete type.
func (e *Engine) tagOf(t types.Type) int {
	k := canonType(t)
	if id, ok := e.tags[k]; ok {
		return id
	}
	id := len(e.tags) + 1
	e.tags[k] = id
	e.tagTypes = append(e.tagTypes, t)
	return id
}

// bindSentinel registers a never-reassigned package-level value (TrueValue,
// ErrInvalidOperator, ...) after checking, on the SSA of the whole module,
// that it is stored exactly once, in the package initialiser, from a fresh
// allocation, and that its address does not escape.
func (e *Engine) bindSentinel(g *GlobalFact) error {
	sp := e.pkgs[g.PkgPath]
	m, ok := sp.Members[g.Name].(*ssa.Global)
	if !ok {
		return fmt.Errorf("%s:%d: global %s not found", g.File, g.Line, g.Name)
	}
	var stores []*ssa.Store
	scan := append([]*ssa.Function(nil), e.modFuncs...)
	for path, p := range e.pkgs {
		if strings.HasPrefix(path, modPath) {
			if f := p.Func("init"); f != nil {
				scan = append(scan, f)
			}
		}
	}
	for _, f := range scan {
		for _, b := range f.Blocks {
			for _, in := range b.Instrs {
				for _, op := range in.Operands(nil) {
					if *op != ssa.Value(m) {
						continue
					}
					switch in := in.(type) {
					case *ssa.Store:
						if in.Addr == ssa.Value(m) && in.Val != ssa.Value(m) {
							stores = append(stores, in)
							continue
						}
						return fmt.Errorf("sentinel %s: address stored into memory in %s", g.Name, f)
					case *ssa.UnOp:
						continue // load
					case *ssa.DebugRef:
						continue
					default:
						return fmt.Errorf("sentinel %s: address escapes in %s (%T)", g.Name, f, in)
					}
				}
			}
		}
	}
	if len(stores) != 1 {
		return fmt.Errorf("sentinel %s: %d stores (want exactly 1, in init)", g.Name, len(stores))
	}
	st := stores[0]
	if st.Parent().Name() != "init" || st.Parent().Pkg != sp {
		return fmt.Errorf("sentinel %s: stored outside the package initialiser (%s)", g.Name, st.Parent())
	}
	s := &sentinel{g: m, id: -(len(e.sentinels) + 2)}
	v := st.Val
	if mi, ok := v.(*ssa.MakeInterface); ok {
		v = mi.X
	} else if _, isPtr := m.Type().(*types.Pointer).Elem().Underlying().(*types.Pointer); isPtr {
		s.isPtr = true
	}
	switch v := v.(type) {
	case *ssa.Alloc:
		s.tag = canonType(v.Type())
	case *ssa.Call:
		// errors.New("...") — a fresh *errors.errorString
		if c := v.Call.StaticCallee(); c != nil && c.String() == "errors.New" {
			s.tag = "*errors.errorString"
		} else {
			return fmt.Errorf("sentinel %s: initialised by unsupported call", g.Name)
		}
	default:
		return fmt.Errorf("sentinel %s: not initialised from a fresh allocation (%T)", g.Name, v)
	}
	e.sentinels[m] = s
	return nil
}

// ---------------------------------------------------------------------------
// Natural loops
// ---------------------------------------------------------------------------

type loopInfo struct {
	header *ssa.BasicBlock
	body   map[*ssa.BasicBlock]bool
	ord    int
}

func findLoops(f *ssa.Function) []*loopInfo {
	var loops []*loopInfo
	byHeader := map[*ssa.BasicBlock]*loopInfo{}
	for _, b := range f.Blocks {
		for _, s := range b.Succs {
			if s.Dominates(b) { // back edge b -> s
				l := byHeader[s]
				if l == nil {
					l = &loopInfo{header: s, body: map[*ssa.BasicBlock]bool{s: true}}
					byHeader[s] = l
					loops = append(loops, l)
				}
				// collect body: nodes reaching b without passing s
				stack := []*ssa.BasicBlock{b}
				for len(stack) > 0 {
					n := stack[len(stack)-1]
					stack = stack[:len(stack)-1]
					if l.body[n] {
						continue
					}
					l.body[n] = true
					stack = append(stack, n.Preds...)
				}
			}
		}
	}
	sort.Slice(loops, func(i, j int) bool { return loops[i].header.Index < loops[j].header.Index })
	for i, l := range loops {
		l.ord = i
	}
	return loops
}

// tableInfo: a package-level constant table ([...][]int literal) whose
// contents are read from the source on every run.
type tableInfo struct {
	g      *ssa.Global
	name   string // spec name prefix, e.g. parser_OpcodeOperands
	rows   map[int64][]int64
	maxLen int
}

// bindTable reads the composite literal of a `table` declaration and checks
// that the variable is never stored to outside the package initialiser.
func (e *Engine) bindTable(g *GlobalFact) error {
	sp := e.pkgs[g.PkgPath]
	m, ok := sp.Members[g.Name].(*ssa.Global)
	if !ok {
		return fmt.Errorf("%s:%d: global %s not found", g.File, g.Line, g.Name)
	}
	ap := e.astPkgs[g.PkgPath]
	var lit *ast.CompositeLit
	for _, f := range ap.Syntax {
		for _, d := range f.Decls {
			gd, ok := d.(*ast.GenDecl)
			if !ok {
				continue
			}
			for _, sp := range gd.Specs {
				vs, ok := sp.(*ast.ValueSpec)
				if !ok {
					continue
				}
				for i, n := range vs.Names {
					if n.Name == g.Name && i < len(vs.Values) {
						lit, _ = vs.Values[i].(*ast.CompositeLit)
					}
				}
			}
		}
	}
	if lit == nil {
		return fmt.Errorf("%s:%d: table %s has no composite literal", g.File, g.Line, g.Name)
	}
	ti := &tableInfo{g: m, name: shortPkg(g.PkgPath) + "_" + g.Name, rows: map[int64][]int64{}}
	next := int64(0)
	for _, el := range lit.Elts {
		val := el
		if kv, ok := el.(*ast.KeyValueExpr); ok {
			tv := ap.TypesInfo.Types[kv.Key]
			if tv.Value == nil {
				return fmt.Errorf("table %s: non-constant key", g.Name)
			}
			next, _ = constant.Int64Val(constant.ToInt(tv.Value))
			val = kv.Value
		}
		rl, ok := val.(*ast.CompositeLit)
		if !ok {
			return fmt.Errorf("table %s: row is not a composite literal", g.Name)
		}
		var row []int64
		for _, x := range rl.Elts {
			tv := ap.TypesInfo.Types[x]
			if tv.Value == nil {
				return fmt.Errorf("table %s: non-constant element", g.Name)
			}
			v, _ := constant.Int64Val(constant.ToInt(tv.Value))
			row = append(row, v)
		}
		ti.rows[next] = row
		if len(row) > ti.maxLen {
			ti.maxLen = len(row)
		}
		next++
	}
	// never written outside init: no Store whose address is derived from the global
	for _, f := range e.modFuncs {
		derived := map[ssa.Value]bool{m: true}
		for changed := true; changed; {
			changed = false
			for _, b := range f.Blocks {
				for _, in := range b.Instrs {
					v, ok := in.(ssa.Value)
					if !ok || derived[v] {
						continue
					}
					switch x := in.(type) {
					case *ssa.IndexAddr:
						if derived[x.X] {
							derived[v], changed = true, true
						}
					case *ssa.UnOp:
						if derived[x.X] {
							derived[v], changed = true, true
						}
					case *ssa.Slice:
						if derived[x.X] {
							derived[v], changed = true, true
						}
					case *ssa.Phi:
						for _, ed := range x.Edges {
							if derived[ed] {
								derived[v], changed = true, true
							}
						}
					}
				}
			}
		}
		for _, b := range f.Blocks {
			for _, in := range b.Instrs {
				if st, ok := in.(*ssa.Store); ok && derived[st.Addr] {
					return fmt.Errorf("table %s is written in %s", g.Name, f)
				}
			}
		}
	}
	if e.tables == nil {
		e.tables = map[*ssa.Global]*tableInfo{}
	}
	e.tables[m] = ti
	// spec functions <name>_len, <name>_at, <name>_sum over a 64-bit index
	var keys []int64
	for k := range ti.rows {
		keys = append(keys, k)
	}
	sort.Slice(keys, func(i, j int) bool { return keys[i] < keys[j] })
	lenT, sumT := bv64(0), bv64(0)
	atT := bv64(0)
	for i := len(keys) - 1; i >= 0; i-- {
		k := keys[i]
		row := ti.rows[k]
		var sum int64
		rowAt := bv64(0)
		for j := len(row) - 1; j >= 0; j-- {
			sum += row[j]
			rowAt = ite(eq("j", bv64(int64(j))), bv64(row[j]), rowAt)
		}
		c := eq("i", bv64(k))
		lenT = ite(c, bv64(int64(len(row))), lenT)
		sumT = ite(c, bv64(sum), sumT)
		atT = ite(c, rowAt, atT)
	}
	b64 := bvSort(64)
	e.tableText += fmt.Sprintf("(define-fun spec_%s_len ((i %s)) %s %s)\n", ti.name, b64, b64, lenT)
	e.tableText += fmt.Sprintf("(define-fun spec_%s_sum ((i %s)) %s %s)\n", ti.name, b64, b64, sumT)
	e.tableText += fmt.Sprintf("(define-fun spec_%s_at ((i %s) (j %s)) %s %s)\n", ti.name, b64, b64, b64, atT)
	e.tableText += fmt.Sprintf("(define-fun spec_%s_rows () %s %s)\n", ti.name, b64, bv64(int64(len(keys))))
	return nil
}
