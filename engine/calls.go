package main

import (
	"fmt"
	"go/ast"
	"go/parser"
	"go/token"
	"go/types"
	"os"
	"sort"
	"strings"

	"golang.org/x/tools/go/ssa"
)

const maxInlineDepth = 4

func (in *inst) call(n *vnode, st *State, x *ssa.Call) {
	fv := in.fv
	cc := &x.Call
	var args []Val
	for _, a := range cc.Args {
		args = append(args, in.lookup(n, a))
	}
	var res Val
	if cc.IsInvoke() {
		recv := in.lookup(n, cc.Value)
		in.safety(n, st, "nil", not(eq("(itag "+recv.T+")", "0")), x.Pos())
		res = in.invoke(n, st, recv, cc.Value.Type(), cc.Method, args, x.Pos())
	} else {
		switch f := cc.Value.(type) {
		case *ssa.Builtin:
			res = in.builtin(n, st, f, cc.Args, args, x.Type(), x.Pos())
		case *ssa.Function:
			res = in.static(n, st, f, args, nil, x.Pos())
		case *ssa.MakeClosure:
			var bs []Val
			for _, b := range f.Bindings {
				bs = append(bs, in.lookup(n, b))
			}
			res = in.static(n, st, f.Fn.(*ssa.Function), args, bs, x.Pos())
		default:
			fval := in.lookup(n, cc.Value)
			if cr := fv.closures[fval.T]; cr != nil {
				res = in.static(n, st, cr.fn, args, cr.bindings, x.Pos())
			} else {
				in.safety(n, st, "nil", not(eq(fval.T, "LNil")), x.Pos())
				res = in.dynamicCall(n, st, fval, cc.Signature(), args, x.Pos())
			}
		}
	}
	if x.Type() != nil {
		if tu, ok := x.Type().(*types.Tuple); ok && tu.Len() == 0 {
			return
		}
		res.Typ = x.Type()
		in.setVal(n, x, res)
	}
}

// resultVal packs function results into a single Val (tuple for n != 1).
func resultVal(sig *types.Signature, vs []Val) Val {
	if sig.Results().Len() == 1 {
		return vs[0]
	}
	return Val{K: KTuple, Fs: vs, Typ: sig.Results()}
}

func (in *inst) unknownResults(st *State, sig *types.Signature, prefix string) []Val {
	var vs []Val
	for i := 0; i < sig.Results().Len(); i++ {
		vs = append(vs, in.fv.unknown(st, sig.Results().At(i).Type(), prefix))
	}
	return vs
}

// havocAll forgets every heap (new epoch).
func (fv *FnVC) havocAll(st *State, why string) {
	fv.havocAllOpt(st, why, true)
}

// reachesPrivate: some receiver/argument term is, or is derived from, the
// private root - the callee can then write the private memory, and keeping it
// across the havoc would contradict the callee's own postcondition (every later
// obligation on the path would hold vacuously).
func (fv *FnVC) reachesPrivate(env map[string]Val) bool {
	if fv.private == "" {
		return false
	}
	var has func(v Val) bool
	has = func(v Val) bool {
		if v.T != "" && strings.Contains(v.T, fv.private) {
			return true
		}
		for _, f := range v.Fs {
			if has(f) {
				return true
			}
		}
		return false
	}
	for _, v := range env {
		if has(v) {
			return true
		}
	}
	return false
}

// havocAllOpt: with keepPrivate=false the private root's memory is forgotten
// too (non-escaping local cells are still kept).
func (fv *FnVC) havocAllOpt(st *State, why string, keepPrivate bool) {
	fv.note("havoc of all memory: " + why)
	fv.epoch++
	if !keepPrivate && fv.private != "" {
		fv.note("private memory not kept: " + why)
		saved := fv.private
		fv.private = ""
		defer func() { fv.private = saved }()
	}
	vlr := fv.visibleLocalRoots()
	if fv.private != "" || len(vlr) > 0 {
		// memory owned by the private root, and local cells that never escape,
		// are unreachable for the callee
		var keep []string
		if fv.private != "" {
			keep = append(keep, "(root "+fv.private+")")
		}
		for _, r := range vlr {
			keep = append(keep, "(root "+r+")")
		}
		region := func(l string) string {
			var ds []string
			for _, k := range keep {
				ds = append(ds, not(eq("(root "+l+")", k)))
			}
			return and(ds...)
		}
		var keys []string
		for k := range st.heaps {
			keys = append(keys, k)
		}
		sort.Strings(keys)
		allocNow := st.alloc
		for _, k := range keys {
			h := st.heaps[k]
			sym := fv.decl(h.info.name+"v", fv.arrSort(h.info))
			reg := region
			if ni := fv.notImmutable(k, allocNow); ni != nil {
				reg = func(l string) string { return and(region(l), ni(l)) }
			}
			hv := &havoc{sym: sym, parent: h, region: reg, done: map[string]bool{}}
			st.heaps[k] = &Heap{term: sym, info: h.info, havocs: []*havoc{hv}}
		}
		if fv.privEpochs == nil {
			fv.privEpochs = map[int]*privEpoch{}
		}
		pe := &privEpoch{prev: st.epoch, region: region, alloc: allocNow, tag: fv.curTag, localOnly: fv.private == "", roots: append([]string(nil), vlr...)}
		fv.privEpochs[fv.epoch] = pe
		for _, k := range keys {
			if h := st.heaps[k]; len(h.havocs) == 1 {
				h.havocs[0].relevant = pe.relevant(fv, k)
			}
		}
	} else if len(fv.eng.immutables) > 0 {
		// nothing private, but immutable fields of existing objects survive
		allocNow := st.alloc
		region := func(l string) string { return "true" }
		var keys []string
		for k := range st.heaps {
			keys = append(keys, k)
		}
		sort.Strings(keys)
		for _, k := range keys {
			h := st.heaps[k]
			if ni := fv.notImmutable(k, allocNow); ni != nil {
				sym := fv.decl(h.info.name+"v", fv.arrSort(h.info))
				hv := &havoc{sym: sym, parent: h, region: ni, done: map[string]bool{}}
				st.heaps[k] = &Heap{term: sym, info: h.info, havocs: []*havoc{hv}}
			} else {
				delete(st.heaps, k)
			}
		}
		if fv.privEpochs == nil {
			fv.privEpochs = map[int]*privEpoch{}
		}
		fv.privEpochs[fv.epoch] = &privEpoch{prev: st.epoch, region: region, alloc: allocNow, onlyImmutable: true, tag: fv.curTag, localOnly: true}
	} else {
		for k := range st.heaps {
			delete(st.heaps, k)
		}
	}
	if fv.epochTag == nil {
		fv.epochTag = map[int]int{}
	}
	fv.epochTag[fv.epoch] = fv.curTag
	st.epoch = fv.epoch
	st.dirty = "true"
	a := fv.decl("alloc", "Int")
	fv.assume("true", "(>= "+a+" "+st.alloc+")")
	st.alloc = a
}

func carriesPointers(v Val) bool {
	switch v.K {
	case KLoc, KSlice, KIface:
		return true
	case KStruct, KTuple:
		for _, f := range v.Fs {
			if carriesPointers(f) {
				return true
			}
		}
	}
	return false
}

func (in *inst) dynamicCall(n *vnode, st *State, f Val, sig *types.Signature, args []Val, pos token.Pos) Val {
	fv := in.fv
	if fv.ct != nil && fv.ct.hasMode("pure-calls") {
		// calls through function values are uninterpreted pure functions of the
		// callee value and the arguments (the wrapped Go library function)
		var vs []Val
		for i := 0; i < sig.Results().Len(); i++ {
			v, ok := fv.pureDyn(st, f, sig, args, i)
			if !ok {
				vs = nil
				break
			}
			vs = append(vs, v)
		}
		if vs != nil || sig.Results().Len() == 0 {
			fv.note("calls through function values modelled as pure uninterpreted functions of (callee, arguments)")
			if sig.Results().Len() == 0 {
				return Val{K: KUnit}
			}
			return resultVal(sig, vs)
		}
	}
	fv.havocAll(st, "call through function value in "+funcKey(in.fn))
	return resultVal(sig, in.unknownResults(st, sig, "dyn"))
}

func (in *inst) static(n *vnode, st *State, f *ssa.Function, args []Val, bindings []Val, pos token.Pos) Val {
	r := in.static1(n, st, f, args, bindings, pos)
	// ghost record of the results of the latest call of f on this path (staticresult(f, i))
	if st.ghost == nil {
		st.ghost = map[string]Val{}
	}
	if r.K == KTuple {
		for i, c := range r.Fs {
			st.ghost[fmt.Sprintf("res:%s.%d", f.Name(), i)] = c
			delete(st.ghost, fmt.Sprintf("has:res:%s.%d", f.Name(), i))
		}
	} else if f.Signature.Results().Len() == 1 {
		st.ghost[fmt.Sprintf("res:%s.0", f.Name())] = r
		delete(st.ghost, fmt.Sprintf("has:res:%s.0", f.Name()))
	}
	return r
}

func (in *inst) static1(n *vnode, st *State, f *ssa.Function, args []Val, bindings []Val, pos token.Pos) Val {
	fv := in.fv
	sig := f.Signature
	if st.ghost == nil {
		st.ghost = map[string]Val{}
	}
	for i, a := range args {
		st.ghost[fmt.Sprintf("arg:%s.%d", f.Name(), i)] = a
		delete(st.ghost, fmt.Sprintf("has:arg:%s.%d", f.Name(), i))
	}
	inModule := f.Blocks != nil && ((f.Pkg != nil && strings.HasPrefix(f.Pkg.Pkg.Path(), modPath)) || f.Parent() != nil || f.Synthetic != "")
	if ct := fv.eng.contracts[f]; ct != nil && !ct.Synth {
		env := map[string]Val{}
		for i, p := range f.Params {
			if i < len(args) {
				env[p.Name()] = args[i]
			}
		}
		for i, b := range f.FreeVars {
			if i < len(bindings) {
				env[b.Name()] = bindings[i]
			}
		}
		return resultVal(sig, in.applyContract(n, st, ct, funcKey(f), f.Pkg.Pkg, env, sig, pos))
	}
	if !inModule {
		return in.external(n, st, f, args, pos)
	}
	// inline
	rec := false
	for _, g := range in.callStack {
		if g == f {
			rec = true
		}
	}
	if f == in.fn || f == fv.top {
		rec = true
	}
	if rec || in.depth >= maxInlineDepth || !smallEnough(f) {
		fv.havocAll(st, "call to "+funcKey(f)+" (recursive, too deep or too large to inline; it has no contract)")
		return resultVal(sig, in.unknownResults(st, sig, "rec"))
	}
	sub := &inst{fv: fv, fn: f, params: args, free: bindings, vals: map[ssa.Value]Val{}, depth: in.depth + 1,
		callStack: append(append([]*ssa.Function(nil), in.callStack...), in.fn), panicOK: in.panicOK}
	for i, p := range f.Params {
		if i < len(args) {
			sub.vals[p] = args[i]
		}
	}
	for i, b := range f.FreeVars {
		if i < len(bindings) {
			sub.vals[b] = bindings[i]
		}
	}
	sub.run(st)
	if len(sub.rets) == 0 {
		st.reach = "false"
		return resultVal(sig, in.unknownResults(st, sig, "noret"))
	}
	var conds []string
	var sts []*State
	for _, r := range sub.rets {
		conds = append(conds, r.st.reach)
		sts = append(sts, r.st)
	}
	m := fv.mergeStates(conds, sts)
	*st = *m
	var vs []Val
	for i := 0; i < sig.Results().Len(); i++ {
		var col []Val
		for _, r := range sub.rets {
			col = append(col, r.vals[i])
		}
		vs = append(vs, fv.mergeVals(conds, col))
	}
	if sig.Results().Len() == 0 {
		return Val{K: KUnit}
	}
	return resultVal(sig, vs)
}

// external: functions outside the module. A contract declared with
// `func extern <name>` is used when present; otherwise results are unknown
// and memory is havocked iff an argument carries pointers.
func (in *inst) external(n *vnode, st *State, f *ssa.Function, args []Val, pos token.Pos) Val {
	fv := in.fv
	sig := f.Signature
	name := f.String()
	if ct := fv.eng.externals[name]; ct != nil {
		env := map[string]Val{}
		ai := 0
		if sig.Recv() != nil {
			env["self"] = args[0]
			ai = 1
		}
		for i := 0; i < sig.Params().Len(); i++ {
			nm := sig.Params().At(i).Name()
			if nm == "" || nm == "_" {
				nm = fmt.Sprintf("a%d", i)
			}
			env[nm] = args[ai+i]
			env[fmt.Sprintf("a%d", i)] = args[ai+i]
		}
		var pk *types.Package
		if f.Pkg != nil {
			pk = f.Pkg.Pkg
		} else if f.Object() != nil {
			pk = f.Object().Pkg()
		}
		fv.usedExternal[name] = true
		return resultVal(sig, in.applyContract(n, st, ct, name, pk, env, sig, pos))
	}
	ptrs := false
	for _, a := range args {
		if carriesPointers(a) {
			ptrs = true
		}
	}
	if ptrs {
		fv.havocAll(st, "external call "+name+" with pointer arguments (no contract)")
	} else {
		fv.note("external call " + name + ": result unconstrained")
	}
	if sig.Results().Len() == 0 {
		return Val{K: KUnit}
	}
	return resultVal(sig, in.unknownResults(st, sig, "ext"))
}

func (in *inst) invoke(n *vnode, st *State, recv Val, it types.Type, m *types.Func, args []Val, pos token.Pos) Val {
	fv := in.fv
	sig := m.Type().(*types.Signature)
	key := canonType(it) + "." + m.Name()
	ct := fv.eng.ifaceCt[key]
	if ct == nil {
		// method promoted from an embedded interface (Iterator embeds Object)
		if named, ok := types.Unalias(it).(*types.Named); ok {
			if iface, ok := named.Underlying().(*types.Interface); ok {
				for i := 0; i < iface.NumEmbeddeds(); i++ {
					if c2 := fv.eng.ifaceCt[canonType(iface.EmbeddedType(i))+"."+m.Name()]; c2 != nil {
						ct = c2
					}
				}
			}
		}
	}
	if ct == nil {
		fv.havocAll(st, "interface call "+key+" (no interface contract)")
		if sig.Results().Len() == 0 {
			return Val{K: KUnit}
		}
		return resultVal(sig, in.unknownResults(st, sig, "ivk"))
	}
	env := map[string]Val{"self": recv}
	for i := 0; i < sig.Params().Len(); i++ {
		nm := sig.Params().At(i).Name()
		if nm == "" || nm == "_" {
			nm = fmt.Sprintf("a%d", i)
		}
		env[nm] = args[i]
		env[fmt.Sprintf("a%d", i)] = args[i]
	}
	rs := in.applyContract(n, st, ct, key, m.Pkg(), env, sig, pos)
	if st.ghost == nil {
		st.ghost = map[string]Val{}
	}
	for i, r := range rs {
		st.ghost[fmt.Sprintf("%s.%d", m.Name(), i)] = r
		delete(st.ghost, fmt.Sprintf("has:%s.%d", m.Name(), i))
	}
	return resultVal(sig, rs)
}

// resultNames returns the names by which a contract refers to results.
func resultNames(sig *types.Signature) []string {
	var ns []string
	for i := 0; i < sig.Results().Len(); i++ {
		nm := sig.Results().At(i).Name()
		if nm == "" || nm == "_" {
			nm = fmt.Sprintf("res%d", i)
		}
		ns = append(ns, nm)
	}
	return ns
}

// applyContract: assert requires, havoc the frame, assume ensures.
func (in *inst) applyContract(n *vnode, st *State, ct *Contract, callee string, pkg *types.Package, env map[string]Val, sig *types.Signature, pos token.Pos) []Val {
	fv := in.fv
	fv.usedContracts[callee] = true
	ce := &cenv{fv: fv, vars: env, st: st, old: st.clone(), pkg: pkg, allocOld: st.alloc, where: callee}
	for _, l := range ct.Lets {
		ce.vars[l[0]] = ce.eval(l[1])
	}
	for _, r := range ct.Requires {
		if r.Assumed {
			fv.note("assumed input condition of " + callee + ": " + r.Expr)
			continue
		}
		t := ce.evalGoal(r.Expr)
		id := fmt.Sprintf("%s#pre:%s.%s@%s", funcKey(fv.top), callee, r.Name, in.posKey(pos, n))
		fv.oblige(id, "pre", in.propsFor(nil), st.reach, t, r.Expr, pos)
	}
	old := st.clone()
	// frame
	if ct.AssignsAny {
		var regs map[string]*region
		var pre map[string]*Heap
		if len(ct.Except) > 0 {
			// heaps named in "except" change only inside the listed location sets
			regs = ce.regions(ct.Except)
			pre = map[string]*Heap{}
			for k, r := range regs {
				pre[k] = fv.heapOf(st, k, r.sort)
			}
		}
		fv.havocAllOpt(st, "callee "+callee+" assigns *", !fv.reachesPrivate(env))
		var keys []string
		for k := range regs {
			keys = append(keys, k)
		}
		sort.Strings(keys)
		for _, k := range keys {
			st.heaps[k] = pre[k]
			fv.havocHeap(st, k, regs[k].sort, regs[k].pred, nil).calleeFrame = true
		}
	} else if len(ct.Assigns) > 0 {
		regs := ce.regions(ct.Assigns)
		var keys []string
		for k := range regs {
			keys = append(keys, k)
		}
		sort.Strings(keys)
		vlr := fv.visibleLocalRoots()
		for _, k := range keys {
			r := regs[k]
			pred := r.pred
			if len(vlr) > 0 {
				// a callee cannot reach cells of the caller that never escape
				p0 := pred
				pred = func(l string) string {
					cs := []string{p0(l)}
					for _, lr := range vlr {
						cs = append(cs, not(eq("(root "+l+")", "(root "+lr+")")))
					}
					return and(cs...)
				}
			}
			fv.havocHeap(st, k, r.sort, pred, nil).calleeFrame = true
		}
	}
	a := fv.decl("alloc", "Int")
	fv.assume("true", "(>= "+a+" "+st.alloc+")")
	st.alloc = a
	// results
	var vs []Val
	names := resultNames(sig)
	if ct.Pure {
		vs = in.pureResults(st, callee, env, sig)
	} else {
		vs = in.unknownResults(st, sig, "r")
	}
	ce2 := &cenv{fv: fv, vars: map[string]Val{}, st: st, old: old, pkg: pkg, allocOld: old.alloc, where: callee}
	for k, v := range ce.vars {
		ce2.vars[k] = v
	}
	for i, nm := range names {
		ce2.vars[nm] = vs[i]
	}
	if len(vs) == 1 {
		ce2.vars["result"] = vs[0]
	}
	for _, e := range ct.Ensures {
		t := ce2.evalAssume(st.reach, e.Expr)
		fv.assume(st.reach, t)
	}
	if ce.err != nil {
		fv.specErr(ce.err)
	}
	if ce2.err != nil {
		fv.specErr(ce2.err)
	}
	callok := "true"
	if len(vs) > 0 && vs[len(vs)-1].K == KIface && canonType(sig.Results().At(sig.Results().Len()-1).Type()) == "error" {
		callok = eq(vs[len(vs)-1].T, "niliface")
	}
	in.checkpoint(n, st, pos, callok)
	return vs
}

// checkpoint re-proves the function's `maintain` clauses after a call and
// assumes them afterwards, so that long call sequences are verified one step
// at a time.
func (in *inst) checkpoint(n *vnode, st *State, pos token.Pos, callok string) {
	fv := in.fv
	if !in.top || fv.ct == nil || len(fv.ct.Maintain) == 0 || st.reach == "false" {
		return
	}
	defer func() {}()
	in.at, in.atNode = n.blk, n
	ce := in.baseEnv(st)
	in.at, in.atNode = nil, nil
	ce.vars["callok"] = bval(callok)
	for _, m := range fv.ct.Maintain {
		t := ce.evalGoal(m.Expr)
		fv.n++
		id := fmt.Sprintf("%s#maintain:%s@%s", funcKey(fv.top), m.Name, in.posKey(pos, n))
		fv.oblige(id, "maintain", in.propsFor(m), st.reach, t, m.Expr, pos)
		// assume the clause in its universal form for the code that follows
		fv.assume(st.reach, ce.evalAssume(st.reach, m.Expr))
	}
	if ce.err != nil {
		fv.specErr(ce.err)
	}
	in.frameCheckpoint(n, st, pos)
}

// frameCP is a proved intermediate frame fact: at some point of the function
// the heap `term` agreed with the entry heap outside the function's frame.
type frameCP struct {
	key, term, reach string
	tag              int
	fact             func(l string) string
}

func (fv *FnVC) frameFact(k string, hterm string) func(l, sel string) string {
	h0 := fv.heapOf(fv.entry, k, fv.frame[k].sort)
	return func(l, sel string) string {
		return implies(and("(< (root "+l+") A0)", "(not (= (root "+l+") (- 1)))", not(fv.frame[k].pred(l))), eq(sel, "(select "+h0.term+" "+l+")"))
	}
}

// useFrameCPs makes the checkpointed frame facts available for a frame goal
// at location sk: frame-axiom instantiation stops at checkpointed heaps, whose
// proved fact is assumed at sk instead.
func (fv *FnVC) useFrameCPs(k, sk, reach string) func() {
	fv.cpStop = map[string]bool{}
	var use []*frameCP
	for _, cp := range fv.frameCPs {
		if cp.key == k && fv.visible(cp.tag) && fv.reachImplies(reach, cp.reach) {
			fv.cpStop[cp.term] = true
			use = append(use, cp)
		}
	}
	for _, cp := range use {
		fv.assume(cp.reach, cp.fact(sk))
	}
	return func() { fv.cpStop = nil }
}

// frameCheckpoint proves the function's frame "so far" after a call (only
// for heaps bounded by the frame), so that the frame obligations at the
// returns of long functions are proved one call at a time.
func (in *inst) frameCheckpoint(n *vnode, st *State, pos token.Pos) {
	fv := in.fv
	if !in.top || len(fv.frame) == 0 || fv.entry == nil {
		return
	}
	var keys []string
	for k, r := range fv.frame {
		if r != nil {
			keys = append(keys, k)
		}
	}
	sort.Strings(keys)
	for _, k := range keys {
		h, ok := st.heaps[k]
		if !ok {
			continue
		}
		h0 := fv.heapOf(fv.entry, k, fv.frame[k].sort)
		if h.term == h0.term {
			continue
		}
		dup := false
		for _, cp := range fv.frameCPs {
			if cp.term == h.term && cp.key == k && fv.visible(cp.tag) && fv.reachImplies(st.reach, cp.reach) {
				dup = true
			}
		}
		if dup {
			continue
		}
		sk := fv.decl("fc", "Loc")
		mk := fv.frameFact(k, h.term)
		done := fv.useFrameCPs(k, sk, st.reach)
		goal := mk(sk, fv.loadRaw(h, sk))
		done()
		o := fv.oblige(fmt.Sprintf("%s#framecp:%s@%s", funcKey(fv.top), frameKeyName(k), in.posKey(pos, n)), "frame", in.propsFor(nil), st.reach, goal,
			"assigns (checkpoint after a call): only declared locations of pre-existing objects have changed so far ("+k+")", pos)
		o.Inherited = true
		term := h.term
		fv.frameCPs = append(fv.frameCPs, &frameCP{key: k, term: term, reach: st.reach, tag: fv.curTag,
			fact: func(l string) string { return mk(l, "(select "+term+" "+l+")") }})
	}
}

func (fv *FnVC) specErr(err error) {
	fv.specErrs = append(fv.specErrs, err.Error())
}

// pureResults: results are uninterpreted functions of the scalar arguments.
func (in *inst) pureResults(st *State, callee string, env map[string]Val, sig *types.Signature) []Val {
	fv := in.fv
	var names []string
	for k := range env {
		if len(k) >= 2 && k[0] == 'a' && k[1] >= '0' && k[1] <= '9' {
			continue
		}
		names = append(names, k)
	}
	// deterministic order: receiver first, then declared parameter order
	var ordered []string
	if _, ok := env["self"]; ok {
		ordered = append(ordered, "self")
	}
	for i := 0; i < sig.Params().Len(); i++ {
		nm := sig.Params().At(i).Name()
		if nm == "" || nm == "_" {
			nm = fmt.Sprintf("a%d", i)
		}
		ordered = append(ordered, nm)
	}
	var sorts, terms []string
	for _, nm := range ordered {
		v, ok := env[nm]
		if !ok || v.K == KStruct || v.K == KTuple {
			continue
		}
		sorts = append(sorts, v.sortOf())
		terms = append(terms, v.T)
	}
	var vs []Val
	for i := 0; i < sig.Results().Len(); i++ {
		t := sig.Results().At(i).Type()
		k, w, srt := kindOf(t)
		v := Val{K: k, W: w, Sort: srt, Typ: t}
		if k == KStruct || k == KTuple {
			vs = append(vs, fv.unknown(st, t, "r"))
			continue
		}
		uf := fmt.Sprintf("uf_%s_%d", sanitize(callee), i)
		fv.declUF(uf, sorts, v.sortOf())
		if len(terms) == 0 {
			v.T = uf
		} else {
			v.T = fv.def("pr", v.sortOf(), "("+uf+" "+strings.Join(terms, " ")+")")
		}
		fv.assumeWF(st, v)
		vs = append(vs, v)
	}
	return vs
}

// ---------------------------------------------------------------------------
// assigns regions
// ---------------------------------------------------------------------------

type region struct {
	sort string
	pred func(loc string) string
}

func orRegion(regs map[string]*region, key, srt string, p func(string) string) {
	if r, ok := regs[key]; ok {
		old := r.pred
		r.pred = func(l string) string { return or(old(l), p(l)) }
		return
	}
	regs[key] = &region{sort: srt, pred: p}
}

// regions evaluates assigns-clause location sets to per-heap predicates.
func (c *cenv) regions(specs []string) map[string]*region {
	regs := map[string]*region{}
	fv := c.fv
	in := &inst{fv: fv}
	for _, s := range specs {
		s = strings.TrimSpace(s)
		// type-based frames: typeof(T) = every field of every object of struct type T;
		// heap(T) = every location holding a value of type T; heapmap(M) = every map of type M
		if strings.HasPrefix(s, "typeof(") && strings.HasSuffix(s, ")") {
			t := c.typeOf(s[len("typeof(") : len(s)-1])
			st, ok := types.Unalias(tOrNil(t)).Underlying().(*types.Struct)
			if t == nil || !ok {
				c.fail("assigns %s: struct type expected", s)
				continue
			}
			tid := fmt.Sprint(fv.eng.tagOf(t))
			for i := 0; i < st.NumFields(); i++ {
				fi := i
				in.forEachLeaf(st.Field(i).Type(), func(path []int, lt types.Type) {
					z := fv.zeroVal(lt)
					p := append([]int(nil), path...)
					orRegion(regs, leafKey(lt), z.sortOf(), func(l string) string {
						cur := l
						var cs []string
						for k := len(p) - 1; k >= 0; k-- {
							cs = append(cs, "(isLField "+cur+")", eq("(fidx "+cur+")", fmt.Sprint(p[k])))
							cur = "(fpar " + cur + ")"
						}
						cs = append(cs, "(isLField "+cur+")", eq("(fidx "+cur+")", fmt.Sprint(fi)), eq("(ltype (fpar "+cur+"))", tid))
						return and(cs...)
					})
				})
			}
			continue
		}
		if strings.HasPrefix(s, "heap(") && strings.HasSuffix(s, ")") {
			t := c.typeOf(s[len("heap(") : len(s)-1])
			if t == nil {
				c.fail("assigns %s: unknown type", s)
				continue
			}
			in.forEachLeaf(t, func(path []int, lt types.Type) {
				z := fv.zeroVal(lt)
				orRegion(regs, leafKey(lt), z.sortOf(), func(l string) string { return "true" })
			})
			continue
		}
		if strings.HasPrefix(s, "fieldof(") && strings.HasSuffix(s, ")") {
			// fieldof(T.f): field f of every object of struct type T
			tf := strings.SplitN(s[len("fieldof("):len(s)-1], ".", 2)
			var t types.Type
			if len(tf) == 2 {
				t = c.typeOf(tf[0])
			}
			st, ok := types.Unalias(tOrNil(t)).Underlying().(*types.Struct)
			if t == nil || !ok {
				c.fail("assigns %s: struct field expected", s)
				continue
			}
			fi := -1
			for i := 0; i < st.NumFields(); i++ {
				if st.Field(i).Name() == tf[1] {
					fi = i
				}
			}
			if fi < 0 {
				c.fail("assigns %s: no such field", s)
				continue
			}
			tid := fmt.Sprint(fv.eng.tagOf(t))
			in.forEachLeaf(st.Field(fi).Type(), func(path []int, lt types.Type) {
				z := fv.zeroVal(lt)
				p := append([]int(nil), path...)
				orRegion(regs, leafKey(lt), z.sortOf(), func(l string) string {
					cur := l
					var cs []string
					for k := len(p) - 1; k >= 0; k-- {
						cs = append(cs, "(isLField "+cur+")", eq("(fidx "+cur+")", fmt.Sprint(p[k])))
						cur = "(fpar " + cur + ")"
					}
					cs = append(cs, "(isLField "+cur+")", eq("(fidx "+cur+")", fmt.Sprint(fi)), eq("(ltype (fpar "+cur+"))", tid))
					return and(cs...)
				})
			})
			continue
		}
		if strings.HasPrefix(s, "none(") && strings.HasSuffix(s, ")") {
			// none(T): no pre-existing location holding a T changes (only useful after "assigns * except")
			t := c.typeOf(s[len("none(") : len(s)-1])
			if t == nil {
				c.fail("assigns %s: unknown type", s)
				continue
			}
			in.forEachLeaf(t, func(path []int, lt types.Type) {
				z := fv.zeroVal(lt)
				orRegion(regs, leafKey(lt), z.sortOf(), func(l string) string { return "false" })
			})
			continue
		}
		if strings.HasPrefix(s, "heapmap(") && strings.HasSuffix(s, ")") {
			t := c.typeOf(s[len("heapmap(") : len(s)-1])
			if t == nil {
				c.fail("assigns %s: unknown type", s)
				continue
			}
			ms := fv.mapSorts(t)
			all := func(l string) string { return "true" }
			orRegion(regs, "Mdom:"+ms.key, ms.domSort(), all)
			orRegion(regs, "Mval:"+ms.key, ms.valSort(), all)
			orRegion(regs, "Mlen:"+ms.key, bvSort(64), all)
			continue
		}
		all := false
		if strings.HasSuffix(s, "[*]") {
			all = true
			s = strings.TrimSuffix(s, "[*]")
		}
		deep := false
		if strings.HasSuffix(s, ".*") {
			deep = true
			s = strings.TrimSuffix(s, ".*")
		}
		e, err := parser.ParseExpr(s)
		if err != nil {
			c.fail("cannot parse assigns target %q", s)
			continue
		}
		switch {
		case all:
			// elements of a slice / array / entries of a map
			if l, t, ok := c.lvalue(e); ok {
				if a, isA := types.Unalias(t).Underlying().(*types.Array); isA {
					base := l
					in.forEachLeaf(a.Elem(), func(path []int, lt types.Type) {
						p := append([]int(nil), path...)
						z := fv.zeroVal(lt)
						orRegion(regs, leafKey(lt), z.sortOf(), func(x string) string { return elemLeafOf(x, base, p) })
					})
					continue
				}
			}
			x := c.expr(e)
			switch t := types.Unalias(x.Typ).Underlying().(type) {
			case *types.Slice:
				xs := x.T
				in.forEachLeaf(t.Elem(), func(path []int, lt types.Type) {
					p := append([]int(nil), path...)
					z := fv.zeroVal(lt)
					orRegion(regs, leafKey(lt), z.sortOf(), func(l string) string {
						el := l
						for range p {
							el = "(fpar " + el + ")"
						}
						return and(elemLeafOf(l, "(sarr "+xs+")", p), "(bvsle (soff "+xs+") (eidx "+el+"))", "(bvslt (eidx "+el+") (bvadd (soff "+xs+") (scap "+xs+")))")
					})
				})
			case *types.Map:
				ms := fv.mapSorts(x.Typ)
				m := x.T
				p := func(l string) string { return eq(l, m) }
				orRegion(regs, "Mdom:"+ms.key, ms.domSort(), p)
				orRegion(regs, "Mval:"+ms.key, ms.valSort(), p)
				orRegion(regs, "Mlen:"+ms.key, bvSort(64), p)
			default:
				c.fail("assigns %s[*]: not a slice, array or map", s)
			}
		case deep:
			x := c.expr(e)
			pt, ok := types.Unalias(x.Typ).Underlying().(*types.Pointer)
			if !ok {
				c.fail("assigns %s.*: not a pointer", s)
				continue
			}
			base := x.T
			c.deepRegion(regs, base, pt.Elem())
		default:
			l, t, ok := c.lvalue(e)
			if !ok {
				c.fail("assigns target %q is not a location", s)
				continue
			}
			c.leafRegions(regs, l, t)
		}
	}
	return regs
}

func (c *cenv) leafRegions(regs map[string]*region, loc string, t types.Type) {
	fv := c.fv
	if _, opq := isOpaque(t); !opq {
		if s, ok := types.Unalias(t).Underlying().(*types.Struct); ok {
			for i := 0; i < s.NumFields(); i++ {
				c.leafRegions(regs, lfield(loc, i), s.Field(i).Type())
			}
			return
		}
		if a, ok := types.Unalias(t).Underlying().(*types.Array); ok {
			in := &inst{fv: fv}
			in.forEachLeaf(a.Elem(), func(path []int, lt types.Type) {
				p := append([]int(nil), path...)
				z := fv.zeroVal(lt)
				orRegion(regs, leafKey(lt), z.sortOf(), func(x string) string { return elemLeafOf(x, loc, p) })
			})
			return
		}
	}
	z := fv.zeroVal(t)
	l := loc
	orRegion(regs, leafKey(t), z.sortOf(), func(x string) string { return eq(x, l) })
}

// deepRegion: every leaf inside the object at base (fields, array elements).
func (c *cenv) deepRegion(regs map[string]*region, base string, t types.Type) {
	c.leafRegions(regs, base, t)
}

// ---------------------------------------------------------------------------
// builtins
// ---------------------------------------------------------------------------

func (in *inst) builtin(n *vnode, st *State, b *ssa.Builtin, argv []ssa.Value, args []Val, rt types.Type, pos token.Pos) Val {
	fv := in.fv
	z := "#x0000000000000000"
	switch b.Name() {
	case "len", "cap":
		x := args[0]
		switch x.K {
		case KSlice:
			if b.Name() == "len" {
				return Val{K: KBV, W: 64, T: fv.def("len", bvSort(64), "(slen "+x.T+")"), Typ: rt}
			}
			return Val{K: KBV, W: 64, T: fv.def("cap", bvSort(64), "(scap "+x.T+")"), Typ: rt}
		case KStr:
			return Val{K: KBV, W: 64, T: fv.def("len", bvSort(64), "(s_len "+x.T+")"), Typ: rt}
		case KLoc:
			switch t := types.Unalias(argv[0].Type()).Underlying().(type) {
			case *types.Map:
				ms := fv.mapSorts(argv[0].Type())
				if !ms.ok {
					fv.outOfSubset("len of map with aggregate key/value")
					return fv.unknown(st, rt, "len")
				}
				return Val{K: KBV, W: 64, T: fv.def("len", bvSort(64), ite(eq(x.T, "LNil"), z, fv.mapLen(st, ms, x.T))), Typ: rt}
			case *types.Pointer:
				if a, ok := t.Elem().Underlying().(*types.Array); ok {
					return Val{K: KBV, W: 64, T: bv64(a.Len()), Typ: rt}
				}
			}
		case KStruct:
			if a, ok := types.Unalias(argv[0].Type()).Underlying().(*types.Array); ok {
				return Val{K: KBV, W: 64, T: bv64(a.Len()), Typ: rt}
			}
		}
		fv.outOfSubset("len/cap of " + argv[0].Type().String())
	case "append":
		return in.appendB(n, st, args[0], args[1], argv[0].Type(), argv[1].Type(), rt)
	case "copy":
		return in.copyB(n, st, args[0], args[1], argv[0].Type(), argv[1].Type(), rt)
	case "delete":
		fv.mapDelete(st, argv[0].Type(), args[0].T, args[1].T)
		return Val{K: KUnit}
	case "print", "println":
		return Val{K: KUnit}
	case "ssa:wrapnilchk":
		return args[0]
	case "min", "max":
		if len(args) == 2 && args[0].K == KBV {
			op := cmpOp(token.LSS, isSigned(rt))
			if b.Name() == "max" {
				op = cmpOp(token.GTR, isSigned(rt))
			}
			return Val{K: KBV, W: args[0].W, T: fv.def("mm", bvSort(args[0].W), ite("("+op+" "+args[0].T+" "+args[1].T+")", args[0].T, args[1].T)), Typ: rt}
		}
		fv.outOfSubset("min/max form")
	case "recover":
		fv.outOfSubset("recover() in " + funcKey(in.fn))
		return fv.unknown(st, rt, "rec")
	default:
		fv.outOfSubset("builtin " + b.Name())
	}
	return fv.unknown(st, rt, "bi")
}

// appendB models append(s, t...) exactly, including in-place growth within
// spare capacity (the source of aliasing bugs).
func (in *inst) appendB(n *vnode, st *State, s, t Val, tsT, ttT, rt types.Type) Val {
	fv := in.fv
	z := "#x0000000000000000"
	et := types.Unalias(tsT).Underlying().(*types.Slice).Elem()
	var tlen string
	tIsStr := t.K == KStr
	if tIsStr {
		tlen = "(s_len " + t.T + ")"
	} else {
		tlen = "(slen " + t.T + ")"
	}
	newlen := fv.def("alen", bvSort(64), "(bvadd (slen "+s.T+") "+tlen+")")
	// appending nothing returns the slice unchanged
	fits := fv.def("fits", "Bool", "(bvsle "+newlen+" (scap "+s.T+"))")
	narr := fv.newObject(st)
	ncap := fv.decl("cap", bvSort(64))
	fv.assume("true", and("(bvsle "+newlen+" "+ncap+")", "(bvslt "+ncap+" #x0000400000000000)"))
	res := fv.defAlways("app", "Slice", ite(fits, "(mkslice (sarr "+s.T+") (soff "+s.T+") "+newlen+" (scap "+s.T+"))",
		"(mkslice "+narr+" "+z+" "+newlen+" "+ncap+")"))
	// Go: append(nil, <empty>) is nil; with fits and a nil s the result is s itself
	res = fv.defAlways("app", "Slice", ite(and(eq("(sarr "+s.T+")", "LNil"), eq(tlen, z)), "nilslice", res))
	sT, tT := s.T, t.T
	in.forEachLeaf(et, func(path []int, lt types.Type) {
		p := append([]int(nil), path...)
		zv := fv.zeroVal(lt)
		key := leafKey(lt)
		parent := fv.heapOf(st, key, zv.sortOf())
		elemOf := func(l string) string {
			el := l
			for range p {
				el = "(fpar " + el + ")"
			}
			return el
		}
		rebuild := func(base, idx string) string {
			l := lelem(base, idx)
			for _, pi := range p {
				l = lfield(l, pi)
			}
			return l
		}
		region := func(l string) string {
			el := elemOf(l)
			inPlace := and(elemLeafOf(l, "(sarr "+sT+")", p), "(bvsle (bvadd (soff "+sT+") (slen "+sT+")) (eidx "+el+"))",
				"(bvslt (eidx "+el+") (bvadd (soff "+sT+") "+newlen+"))")
			fresh := elemLeafOf(l, narr, p)
			return ite(fits, inPlace, fresh)
		}
		content := func(l string) string {
			el := elemOf(l)
			var fromT func(j string) string
			if tIsStr {
				fromT = func(j string) string { return "(s_at " + tT + " " + j + ")" }
			} else {
				fromT = func(j string) string {
					return fv.loadRaw(parent, rebuild("(sarr "+tT+")", "(bvadd (soff "+tT+") "+j+")"))
				}
			}
			inPlace := fromT("(bvsub (eidx " + el + ") (bvadd (soff " + sT + ") (slen " + sT + ")))")
			fresh := ite("(bvslt (eidx "+el+") (slen "+sT+"))",
				fv.loadRaw(parent, rebuild("(sarr "+sT+")", "(bvadd (soff "+sT+") (eidx "+el+"))")),
				fromT("(bvsub (eidx "+el+") (slen "+sT+"))"))
			return ite(fits, inPlace, fresh)
		}
		fv.havocHeap(st, key, zv.sortOf(), region, content)
	})
	return Val{K: KSlice, T: res, Typ: rt}
}

func (in *inst) copyB(n *vnode, st *State, d, s Val, dT, sT types.Type, rt types.Type) Val {
	fv := in.fv
	et := types.Unalias(dT).Underlying().(*types.Slice).Elem()
	var slen string
	sIsStr := s.K == KStr
	if sIsStr {
		slen = "(s_len " + s.T + ")"
	} else {
		slen = "(slen " + s.T + ")"
	}
	cnt := fv.def("cnt", bvSort(64), ite("(bvslt (slen "+d.T+") "+slen+")", "(slen "+d.T+")", slen))
	dTm, sTm := d.T, s.T
	in.forEachLeaf(et, func(path []int, lt types.Type) {
		p := append([]int(nil), path...)
		zv := fv.zeroVal(lt)
		key := leafKey(lt)
		parent := fv.heapOf(st, key, zv.sortOf())
		elemOf := func(l string) string {
			el := l
			for range p {
				el = "(fpar " + el + ")"
			}
			return el
		}
		region := func(l string) string {
			el := elemOf(l)
			return and(elemLeafOf(l, "(sarr "+dTm+")", p), "(bvsle (soff "+dTm+") (eidx "+el+"))", "(bvslt (eidx "+el+") (bvadd (soff "+dTm+") "+cnt+"))")
		}
		content := func(l string) string {
			el := elemOf(l)
			j := "(bvsub (eidx " + el + ") (soff " + dTm + "))"
			if sIsStr {
				return "(s_at " + sTm + " " + j + ")"
			}
			sl := lelem("(sarr "+sTm+")", "(bvadd (soff "+sTm+") "+j+")")
			for _, pi := range p {
				sl = lfield(sl, pi)
			}
			return fv.loadRaw(parent, sl)
		}
		fv.havocHeap(st, key, zv.sortOf(), region, content)
	})
	return Val{K: KBV, W: 64, T: cnt, Typ: rt}
}

// ---------------------------------------------------------------------------
// defer
// ---------------------------------------------------------------------------

func (in *inst) deferCall(n *vnode, st *State, x *ssa.Defer) {
	fv := in.fv
	flag := fv.def("dfr", "Bool", st.reach)
	var args []Val
	for _, a := range x.Call.Args {
		args = append(args, in.lookup(n, a))
	}
	in.deferred = append(in.deferred, &deferRec{call: x, flag: flag, node: n, args: args})
}

func (in *inst) runDefers(n *vnode, st *State, x *ssa.RunDefers) {
	fv := in.fv
	for i := len(in.deferred) - 1; i >= 0; i-- {
		d := in.deferred[i]
		// a defer registered in a block that cannot reach this one is never pending here
		if in.top && d.node.tag != n.tag && !fv.anc[n.tag][d.node.tag] {
			continue
		}
		// the defer is pending iff its Defer instruction was executed on this path
		pending := fv.def("pend", "Bool", and(st.reach, d.flag))
		fv.noteAnd(pending, st.reach)
		cc := &d.call.Call
		var f *ssa.Function
		var bs []Val
		switch v := cc.Value.(type) {
		case *ssa.Function:
			f = v
		case *ssa.MakeClosure:
			f = v.Fn.(*ssa.Function)
			for _, b := range v.Bindings {
				bs = append(bs, in.lookup(d.node, b))
			}
		}
		if f == nil || cc.IsInvoke() {
			// cannot model: require that it is never pending
			fv.oblige(fmt.Sprintf("%s#safe:defer@%s", funcKey(fv.top), in.posKey(d.call.Pos(), n)), "safety", in.propsFor(nil),
				"true", not(pending), "deferred call through interface/function value is never pending", d.call.Pos())
			continue
		}
		sub := st.clone()
		sub.reach = pending
		in.static(n, sub, f, d.args, bs, d.call.Pos())
		skip := fv.def("skip", "Bool", and(st.reach, not(d.flag)))
		fv.noteAnd(skip, st.reach)
		m := fv.mergeStates([]string{sub.reach, skip}, []*State{sub, st})
		*st = *m
	}
}

// ---------------------------------------------------------------------------
// loops cut by invariants
// ---------------------------------------------------------------------------

// writeShape describes which locations of one heap a loop may write: any
// (total), array/slice elements, and/or fields with given indices.
type writeShape struct {
	sort        string
	total       bool
	elems       bool
	fields      map[int]bool
	calleeTotal bool     // a callee's declared frame covers this heap: anything but non-escaping local cells
	cells       []string // local cells written directly (location terms)
	fv          *FnVC
}

func (w *writeShape) pred(l string) string {
	if w.total {
		return "true"
	}
	var ds []string
	if w.calleeTotal {
		var ks []string
		for _, r := range w.fv.visibleLocalRoots() {
			ks = append(ks, not(eq("(root "+l+")", "(root "+r+")")))
		}
		ds = append(ds, and(ks...))
	}
	for _, c := range w.cells {
		ds = append(ds, eq(l, c))
	}
	if w.elems {
		ds = append(ds, "(isLElem "+l+")")
	}
	if len(w.fields) > 0 {
		var fs []int
		for f := range w.fields {
			fs = append(fs, f)
		}
		sort.Ints(fs)
		var es []string
		for _, f := range fs {
			es = append(es, eq("(fidx "+l+")", fmt.Sprint(f)))
		}
		ds = append(ds, and("(isLField "+l+")", or(es...)))
	}
	return or(ds...)
}

// loopWrites computes, per heap key, which pre-existing locations the body
// of l may write; anything=true means a call with unknown effects.
func (in *inst) loopWrites(l *loopInfo) (keys map[string]*writeShape, anything bool) {
	fv := in.fv
	keys = map[string]*writeShape{}
	get := func(k, srt string) *writeShape {
		w := keys[k]
		if w == nil {
			w = &writeShape{sort: srt, fields: map[int]bool{}, fv: fv}
			keys[k] = w
		}
		return w
	}
	// a store of a value of type t at an address of the given kind
	addStore := func(t types.Type, addr ssa.Value) {
		in.forEachLeaf(t, func(path []int, lt types.Type) {
			w := get(leafKey(lt), fv.zeroVal(lt).sortOf())
			if len(path) > 0 {
				w.fields[path[len(path)-1]] = true
				return
			}
			switch a := addr.(type) {
			case *ssa.FieldAddr:
				w.fields[a.Field] = true
			case *ssa.IndexAddr:
				w.elems = true
			case *ssa.Alloc:
				if v, ok := in.vals[a]; ok {
					w.cells = append(w.cells, v.T)
				} else {
					w.total = true
				}
			default:
				w.total = true
			}
		})
	}
	addElems := func(t types.Type) {
		in.forEachLeaf(t, func(path []int, lt types.Type) {
			w := get(leafKey(lt), fv.zeroVal(lt).sortOf())
			if len(path) > 0 {
				w.fields[path[len(path)-1]] = true
			} else {
				w.elems = true
			}
		})
	}
	var blocks []*ssa.BasicBlock
	for b := range l.body {
		blocks = append(blocks, b)
	}
	sort.Slice(blocks, func(i, j int) bool { return blocks[i].Index < blocks[j].Index })
	seen := map[*ssa.Function]bool{}
	var visit func(f *ssa.Function, blocks []*ssa.BasicBlock, depth int)
	visit = func(f *ssa.Function, blocks []*ssa.BasicBlock, depth int) {
		if f != in.fn {
			if seen[f] {
				return
			}
			seen[f] = true
		}
		for _, b := range blocks {
			for _, ins := range b.Instrs {
				switch x := ins.(type) {
				case *ssa.Store:
					addStore(x.Val.Type(), x.Addr)
				case *ssa.MapUpdate:
					ms := fv.mapSorts(x.Map.Type())
					if ms.ok {
						get("Mdom:"+ms.key, ms.domSort()).total = true
						get("Mval:"+ms.key, ms.valSort()).total = true
						get("Mlen:"+ms.key, bvSort(64)).total = true
					}
				case *ssa.Defer, *ssa.Go:
					anything = true
				case *ssa.Call:
					cc := &x.Call
					if cc.IsInvoke() {
						key := canonType(cc.Value.Type()) + "." + cc.Method.Name()
						ct := fv.eng.ifaceCt[key]
						if ct == nil || ct.AssignsAny || len(ct.Assigns) > 0 {
							anything = true
						}
						continue
					}
					switch fn := cc.Value.(type) {
					case *ssa.Builtin:
						switch fn.Name() {
						case "append", "copy":
							addElems(types.Unalias(cc.Args[0].Type()).Underlying().(*types.Slice).Elem())
						case "delete":
							ms := fv.mapSorts(cc.Args[0].Type())
							if ms.ok {
								get("Mdom:"+ms.key, ms.domSort()).total = true
								get("Mlen:"+ms.key, bvSort(64)).total = true
							}
						}
					case *ssa.Function:
						if ct := fv.eng.contracts[fn]; ct != nil && !ct.Synth {
							if ct.AssignsAny {
								anything = true
								for _, a := range cc.Args {
									if p, ok := a.(*ssa.Parameter); ok && fv.privName != "" && p.Name() == fv.privName {
										if fv.loopPassesPriv == nil {
											fv.loopPassesPriv = map[*loopInfo]bool{}
										}
										fv.loopPassesPriv[l] = true
									}
								}
							} else if len(ct.Assigns) > 0 {
								// heap keys of the callee's declared frame (evaluated on dummy arguments)
								for k, srt := range in.assignsKeys(ct, fn) {
									get(k, srt).calleeTotal = true
								}
							}
						} else if ct := fv.eng.externals[fn.String()]; ct != nil {
							if ct.AssignsAny || len(ct.Assigns) > 0 {
								anything = true
							}
						} else if fn.Blocks != nil && depth < maxInlineDepth && smallEnough(fn) {
							visit(fn, fn.Blocks, depth+1)
						} else if fn.Blocks == nil {
							for _, a := range cc.Args {
								if k, _, _ := kindOf(a.Type()); k == KLoc || k == KSlice || k == KIface || k == KStruct {
									anything = true
								}
							}
						} else {
							anything = true
						}
					default:
						anything = true
					}
				}
			}
		}
	}
	visit(in.fn, blocks, in.depth)
	if os.Getenv("TGVC_DEBUG") == "loops" {
		for k, w := range keys {
			fmt.Fprintf(os.Stderr, "loop %d of %s: key %s total=%v elems=%v fields=%v cells=%v calleeTotal=%v anything=%v\n", l.ord, in.fn.Name(), k, w.total, w.elems, w.fields, w.cells, w.calleeTotal, anything)
		}
	}
	return keys, anything
}

// headerEnv builds the variable environment for loop clauses at header l.
func (in *inst) headerEnv(n *vnode, l *loopInfo, phiVals map[*ssa.Phi]Val, st *State) *cenv {
	in.at, in.atNode = l.header, n
	ce := in.baseEnv(st)
	in.at, in.atNode = nil, nil
	for _, ins := range l.header.Instrs {
		phi, ok := ins.(*ssa.Phi)
		if !ok {
			break
		}
		if phi.Comment != "" {
			if v, ok := phiVals[phi]; ok {
				ce.vars[phi.Comment] = v
			}
		}
	}
	ce.where = fmt.Sprintf("%s loop %d", funcKey(in.fn), l.ord)
	return ce
}

// baseEnv: parameters, free variables and uniquely-bound local names.
func (in *inst) baseEnv(st *State) *cenv {
	fv := in.fv
	var pkg *types.Package
	if in.fn.Pkg != nil {
		pkg = in.fn.Pkg.Pkg
	} else {
		p := in.fn
		for p.Parent() != nil {
			p = p.Parent()
		}
		pkg = p.Pkg.Pkg
	}
	ce := &cenv{fv: fv, vars: map[string]Val{}, st: st, old: in.entrySt, pkg: pkg, allocOld: fv.allocEntry, where: funcKey(in.fn)}
	if in.names == nil {
		in.names = map[string][]ssa.Value{}
		for _, b := range in.fn.Blocks {
			for _, ins := range b.Instrs {
				if a, ok := ins.(*ssa.Alloc); ok && a.Heap && a.Comment != "" && token.IsIdentifier(a.Comment) {
					// an escaping local (captured by a closure): the source name denotes the current content of
					// its cell, which callees may have changed; a name with two such cells is left unbound
					if in.addrNames == nil {
						in.addrNames = map[string]ssa.Value{}
					}
					if _, dup := in.addrNames[a.Comment]; dup {
						in.addrNames[a.Comment] = nil
					} else {
						in.addrNames[a.Comment] = a
					}
				}
				if d, ok := ins.(*ssa.DebugRef); ok && !d.IsAddr {
					if id, ok := d.Expr.(*ast.Ident); ok {
						dupl := false
						for _, v := range in.names[id.Name] {
							if v == d.X {
								dupl = true
							}
						}
						if !dupl {
							in.names[id.Name] = append(in.names[id.Name], d.X)
						}
					}
				}
			}
		}
	}
	for name, vs := range in.names {
		// a source name may be bound in several scopes (e.g. per type-switch
		// arm): only values whose definition dominates the evaluation point count
		var cand []ssa.Value
		for _, v := range vs {
			if ins, ok := v.(ssa.Instruction); ok && in.at != nil && ins.Block() != in.at && !ins.Block().Dominates(in.at) {
				continue
			}
			cand = append(cand, v)
		}
		if len(cand) > 1 && in.at != nil {
			// several definitions dominate the evaluation point: the source variable
			// denotes the latest one (the one dominated by all the others)
			var best ssa.Value
			for _, v := range cand {
				vi, ok := v.(ssa.Instruction)
				if !ok {
					continue
				}
				latest := true
				for _, w := range cand {
					wi, ok2 := w.(ssa.Instruction)
					if w == v || !ok2 {
						continue
					}
					if wi.Block() == vi.Block() {
						// same block: order of instructions
						iv, iw := -1, -1
						for k, ins := range vi.Block().Instrs {
							if ins == vi {
								iv = k
							}
							if ins == wi {
								iw = k
							}
						}
						if iw > iv {
							latest = false
						}
					} else if !wi.Block().Dominates(vi.Block()) {
						latest = false
					}
				}
				if latest {
					best = v
				}
			}
			if best != nil {
				cand = []ssa.Value{best}
			}
		}
		if len(cand) == 1 {
			if v, ok := in.nodeVal(cand[0]); ok {
				ce.vars[name] = v
			} else if c, ok := cand[0].(*ssa.Const); ok {
				ce.vars[name] = fv.constVal(c)
			}
		}
	}
	for name, cell := range in.addrNames {
		if cell == nil {
			delete(ce.vars, name)
			continue
		}
		if cv, ok := in.nodeVal(cell); ok && cv.K == KLoc {
			if pt, isP := types.Unalias(cell.Type()).Underlying().(*types.Pointer); isP {
				if k, _, _ := kindOf(pt.Elem()); k != KStruct && k != KTuple {
					fv.quiet++
					ce.vars[name] = fv.load(st, cv.T, pt.Elem())
					fv.quiet--
				}
			}
		}
	}
	for i, p := range in.fn.Params {
		if i < len(in.params) {
			ce.vars[p.Name()] = in.params[i]
		}
	}
	for i, b := range in.fn.FreeVars {
		if i < len(in.free) {
			ce.vars[b.Name()] = in.free[i]
		}
	}
	for k, v := range in.letVals {
		ce.vars[k] = v
	}
	return ce
}

func (in *inst) headerPhis(l *loopInfo) []*ssa.Phi {
	var ps []*ssa.Phi
	for _, ins := range l.header.Instrs {
		phi, ok := ins.(*ssa.Phi)
		if !ok {
			break
		}
		ps = append(ps, phi)
	}
	return ps
}

// loopRegion: which locations of heap key k a loop may modify: objects
// allocated since function entry, or inside the function's declared frame.
func (in *inst) loopRegion(key string, lp *loopInfo) func(string) string {
	fv := in.fv
	var fr *region
	if fv.frame != nil {
		fr = fv.frame[key]
	}
	// a loop-level assigns clause replaces the function frame for this loop
	var lfr map[string]*region
	if lp != nil && in.loopFrames != nil {
		lfr = in.loopFrames[lp]
	}
	return func(l string) string {
		fresh := "(>= (root " + l + ") " + fv.allocEntry + ")"
		if lfr != nil {
			// with a loop-level assigns clause "fresh" means allocated since the loop was entered
			if a, ok := in.loopAllocPre[lp]; ok {
				fresh = "(>= (root " + l + ") " + a + ")"
			}
			if r := lfr[key]; r != nil {
				return or(fresh, r.pred(l))
			}
			return fresh
		}
		if fv.frameAny && fr == nil {
			return "true"
		}
		if fr != nil {
			return or(fresh, fr.pred(l))
		}
		return fresh
	}
}

func (in *inst) cutHeader(n *vnode, l *loopInfo, edges []*vedge, conds []string) {
	fv := in.fv
	st := n.in
	ls := in.loopSpec(l)
	phis := in.headerPhis(l)
	// incoming phi values
	pin := map[*ssa.Phi]Val{}
	for _, phi := range phis {
		var vs []Val
		for _, e := range edges {
			vs = append(vs, in.phiIncoming(phi, e))
		}
		pin[phi] = fv.mergeVals(conds, vs)
	}
	// inv-init
	ce := in.headerEnv(n, l, pin, st)
	ce.pre = st
	ce.prevars = ce.vars
	for _, iv := range ls.Invariants {
		t := ce.evalGoal(iv.Expr)
		fv.oblige(fmt.Sprintf("%s#inv-init:%s@loop%d", funcKey(in.fn), iv.Name, l.ord), "inv-init", in.propsFor(iv), st.reach, t, iv.Expr, l.header.Instrs[0].Pos())
	}
	if ce.err != nil {
		fv.specErr(ce.err)
	}
	if t, ok := in.autoRangeInv(n, l, pin); ok {
		fv.oblige(fmt.Sprintf("%s#inv-init:auto_rangeindex@loop%d", funcKey(in.fn), l.ord), "inv-init", in.propsFor(nil), st.reach, t, "range index within bounds (generated)", l.header.Instrs[0].Pos())
	}
	// loop-level frame
	if ls.AssignsSet {
		if in.loopFrames == nil {
			in.loopFrames = map[*loopInfo]map[string]*region{}
		}
		in.loopFrames[l] = ce.regions(ls.Assigns)
		if ce.err != nil {
			fv.specErr(ce.err)
		}
	}
	// havoc
	pre := st.clone()
	if in.loopAllocPre == nil {
		in.loopAllocPre = map[*loopInfo]string{}
	}
	in.loopAllocPre[l] = st.alloc
	keys, anything := in.loopWrites(l)
	var exceptKeys []string
	var ks []string
	for k := range keys {
		ks = append(ks, k)
	}
	sort.Strings(ks)
	if anything {
		// callees with unknown effects cannot reach the private memory; the
		// loop's own stores (visible in its SSA) are havocked by shape below
		// heaps the function's own frame bounds ("assigns * except S"): the loop, like the whole
		// function, may change them only inside S or in objects allocated since entry. That is
		// assumed for the havoc here and proved per iteration (loopframe obligations in invStep).
		var eks []string
		epre := map[string]*Heap{}
		if fv.frameAny && in.loopFrames[l] == nil {
			for k, r := range fv.frame {
				if r != nil {
					eks = append(eks, k)
					epre[k] = fv.heapOf(st, k, r.sort)
				}
			}
			sort.Strings(eks)
		}
		fv.havocAllOpt(st, fmt.Sprintf("loop %d of %s contains calls with unknown effects", l.ord, funcKey(in.fn)), !fv.loopPassesPriv[l])
		for _, k := range eks {
			st.heaps[k] = epre[k]
			fv.havocHeap(st, k, fv.frame[k].sort, in.loopRegion(k, l), nil)
		}
		for _, k := range ks {
			if epre[k] != nil {
				continue
			}
			w := keys[k]
			fv.havocHeap(st, k, w.sort, w.pred, nil)
		}
		exceptKeys = eks
	} else {
		for _, k := range ks {
			w := keys[k]
			lr := in.loopRegion(k, l)
			fv.havocHeap(st, k, w.sort, func(l string) string { return and(w.pred(l), lr(l)) }, nil)
		}
		a := fv.decl("alloc", "Int")
		fv.assume("true", "(>= "+a+" "+st.alloc+")")
		st.alloc = a
	}
	st.ghost = nil
	pnew := map[*ssa.Phi]Val{}
	for _, phi := range phis {
		v := fv.unknown(st, phi.Type(), "lp")
		pnew[phi] = v
		in.setVal(n, phi, v)
	}
	if t, ok := in.autoRangeInv(n, l, pnew); ok {
		fv.assume(st.reach, t)
	}
	ce2 := in.headerEnv(n, l, pnew, st)
	ce2.pre = pre
	ce2.prevars = ce.vars
	for _, iv := range ls.Invariants {
		fv.assume(st.reach, ce2.evalAssume(st.reach, iv.Expr))
	}
	if ce2.err != nil {
		fv.specErr(ce2.err)
	}
	if in.hdrState == nil {
		in.hdrState = map[*loopInfo]*hdrSnap{}
	}
	for _, lt := range ls.Lets {
		ce2.pol = 0
		ce2.vars[lt[0]] = ce2.eval(lt[1])
	}
	if ce2.err != nil {
		fv.specErr(ce2.err)
	}
	snapVars := map[string]Val{}
	for k, v := range ce2.vars {
		snapVars[k] = v
	}
	in.hdrState[l] = &hdrSnap{st: st.clone(), vars: snapVars, pre: pre, prevars: ce.vars, keys: keys, anything: anything, exceptKeys: exceptKeys}
}

func (in *inst) invStep(n *vnode, edges []*vedge, conds []string) {
	fv := in.fv
	l := n.loop
	st := n.in
	ls := in.loopSpec(l)
	snap := in.hdrState[l]
	if snap == nil {
		return
	}
	pv := map[*ssa.Phi]Val{}
	for _, phi := range in.headerPhis(l) {
		var vs []Val
		for _, e := range edges {
			vs = append(vs, in.phiIncoming(phi, e))
		}
		pv[phi] = fv.mergeVals(conds, vs)
	}
	ce := in.headerEnv(n, l, pv, st)
	if n.from != nil {
		// names bound inside the body (range key / value, locals) that dominate this back edge
		in.at, in.atNode = n.from, n
		be := in.baseEnv(st)
		in.at, in.atNode = nil, nil
		for k, v := range be.vars {
			if _, ok := ce.vars[k]; !ok {
				ce.vars[k] = v
			}
		}
	}
	ce.it0 = snap.st
	ce.it0vars = snap.vars
	ce.pre = snap.pre
	ce.prevars = snap.prevars
	for _, lt := range ls.Lets {
		ce.vars[lt[0]] = snap.vars[lt[0]]
	}
	pos := l.header.Instrs[0].Pos()
	esfx := ""
	if n.from != nil && in.backEdges(l) > 1 {
		esfx = fmt.Sprintf("/edge%d", in.backEdgeOrd(l, n.from))
		for i := len(n.from.Instrs) - 1; i >= 0; i-- {
			if p := n.from.Instrs[i].Pos(); p.IsValid() {
				pos = p
				break
			}
		}
	}
	if t, ok := in.autoRangeInv(n, l, pv); ok {
		fv.oblige(fmt.Sprintf("%s#inv-step:auto_rangeindex@loop%d%s", funcKey(in.fn), l.ord, esfx), "inv-step", in.propsFor(nil), st.reach, t, "range index within bounds (generated)", pos)
	}
	for _, iv := range ls.Invariants {
		t := ce.evalGoal(iv.Expr)
		fv.oblige(fmt.Sprintf("%s#inv-step:%s@loop%d%s", funcKey(in.fn), iv.Name, l.ord, esfx), "inv-step", in.propsFor(iv), st.reach, t, iv.Expr, pos)
	}
	for _, sc := range ls.Steps {
		ce.vars["exited"] = bval("false")
		ce.vars["continued"] = bval("true")
		t := ce.evalGoal(sc.Expr)
		fv.oblige(fmt.Sprintf("%s#step:%s@loop%d%s", funcKey(in.fn), sc.Name, l.ord, esfx), "step", in.propsFor(sc), st.reach, t, sc.Expr, pos)
	}
	if ce.err != nil {
		fv.specErr(ce.err)
	}
	// loops with unknown-effect calls: the heaps bounded by the function's frame stay within it
	for _, k := range snap.exceptKeys {
		r := fv.frame[k]
		hNow := fv.heapOf(st, k, r.sort)
		hHdr := fv.heapOf(snap.st, k, r.sort)
		if hNow.term == hHdr.term {
			continue
		}
		sk := fv.decl("fl", "Loc")
		goal := implies(and("(< (root "+sk+") "+snap.st.alloc+")", "(not (= (root "+sk+") (- 1)))", not(in.loopRegion(k, l)(sk))), eq(fv.loadRaw(hNow, sk), fv.loadRaw(hHdr, sk)))
		fv.oblige(fmt.Sprintf("%s#loopframe:%s@loop%d%s", funcKey(in.fn), sanitize(k), l.ord, esfx), "frame", in.propsFor(nil), st.reach, goal,
			"loop writes only fresh objects or the function's frame ("+k+")", pos)
	}
	// loop frame: outside the loop region nothing changed since the header
	if !snap.anything {
		var ks []string
		for k := range snap.keys {
			ks = append(ks, k)
		}
		sort.Strings(ks)
		for _, k := range ks {
			w := snap.keys[k]
			hNow := fv.heapOf(st, k, w.sort)
			hHdr := fv.heapOf(snap.st, k, w.sort)
			if hNow.term == hHdr.term {
				continue
			}
			sk := fv.decl("fl", "Loc")
			// locations allocated since the header are outside the claim
			goal := implies(and("(< (root "+sk+") "+snap.st.alloc+")", "(not (= (root "+sk+") (- 1)))", not(and(w.pred(sk), in.loopRegion(k, l)(sk)))), eq(fv.loadRaw(hNow, sk), fv.loadRaw(hHdr, sk)))
			fv.oblige(fmt.Sprintf("%s#loopframe:%s@loop%d%s", funcKey(in.fn), sanitize(k), l.ord, esfx), "frame", in.propsFor(nil), st.reach, goal,
				"loop writes only fresh objects or the function's frame ("+k+")", pos)
		}
	}
}

func (in *inst) backEdges(l *loopInfo) int {
	n := 0
	for _, p := range l.header.Preds {
		if l.body[p] {
			n++
		}
	}
	return n
}

// backEdgeOrd: ordinal of the back edge from block b among the loop's back
// edges, in block order (stable under edits that do not add back edges before it).
func (in *inst) backEdgeOrd(l *loopInfo, b *ssa.BasicBlock) int {
	var idx []int
	for _, p := range l.header.Preds {
		if l.body[p] {
			idx = append(idx, p.Index)
		}
	}
	sort.Ints(idx)
	for i, x := range idx {
		if x == b.Index {
			return i
		}
	}
	return -1
}

// assignsKeys: which heaps a callee's assigns clause can touch. The clause is
// evaluated on unconstrained dummy arguments; only the heap keys are used.
func (in *inst) assignsKeys(ct *Contract, fn *ssa.Function) map[string]string {
	fv := in.fv
	if fv.akCache == nil {
		fv.akCache = map[*ssa.Function]map[string]string{}
	}
	if m, ok := fv.akCache[fn]; ok {
		return m
	}
	out := map[string]string{}
	fv.akCache[fn] = out
	st := &State{reach: "false", heaps: map[string]*Heap{}, alloc: fv.allocEntry}
	save := fv.curTag
	fv.curTag = -1
	env := map[string]Val{}
	for _, p := range fn.Params {
		env[p.Name()] = fv.unknown(nil, p.Type(), "dummy")
	}
	ce := &cenv{fv: fv, vars: env, st: st, old: st, pkg: funcPkg(fn), allocOld: fv.allocEntry, where: "assigns of " + funcKey(fn)}
	for k, r := range ce.regions(ct.Assigns) {
		out[k] = r.sort
	}
	fv.curTag = save
	return out
}

// autoRangeInv: for compiler-generated "rangeindex" loops (for i, x := range s)
// the hidden index stays within [-1, len-1]; the fact is proved like any
// other invariant (init + step obligations), so it is not an assumption.
func (in *inst) autoRangeInv(n *vnode, l *loopInfo, phiVals map[*ssa.Phi]Val) (string, bool) {
	var parts []string
	for _, phi := range in.headerPhis(l) {
		if phi.Comment != "rangeindex" {
			continue
		}
		pv, ok := phiVals[phi]
		if !ok || pv.K != KBV || pv.W != 64 {
			continue
		}
		// t5 = phi + 1 ; t6 = t5 < bound
		for _, ins := range l.header.Instrs {
			b, ok := ins.(*ssa.BinOp)
			if !ok || b.Op != token.LSS {
				continue
			}
			add, ok := b.X.(*ssa.BinOp)
			if !ok || add.Op != token.ADD || add.X != ssa.Value(phi) {
				continue
			}
			bound, ok := in.vals[b.Y]
			if !ok {
				if c, isC := b.Y.(*ssa.Const); isC {
					bound = in.fv.constVal(c)
				} else {
					continue
				}
			}
			parts = append(parts, and("(bvsle #xffffffffffffffff "+pv.T+")", "(bvsle "+pv.T+" (bvsub "+bound.T+" #x0000000000000001))"))
		}
	}
	if len(parts) == 0 {
		return "", false
	}
	return and(parts...), true
}

func tOrNil(t types.Type) types.Type {
	if t == nil {
		return types.Typ[types.Invalid]
	}
	return t
}

// smallEnough: only small functions are inlined at call sites; larger ones
// need a contract (callers are otherwise checked against "anything may happen").
func smallEnough(f *ssa.Function) bool {
	n := 0
	for _, b := range f.Blocks {
		n += len(b.Instrs)
	}
	return n <= 120
}

// pureDyn: result i of calling function value f on args, as an uninterpreted
// function. Slice arguments are passed by header (contents abstracted).
func (fv *FnVC) pureDyn(st *State, f Val, sig *types.Signature, args []Val, i int) (Val, bool) {
	t := sig.Results().At(i).Type()
	k, w, srt := kindOf(t)
	if k == KStruct || k == KTuple {
		return Val{}, false
	}
	v := Val{K: k, W: w, Sort: srt, Typ: t}
	sorts := []string{"Loc"}
	terms := []string{f.T}
	for _, a := range args {
		if a.K == KStruct || a.K == KTuple {
			return Val{}, false
		}
		sorts = append(sorts, a.sortOf())
		terms = append(terms, a.T)
	}
	name := fmt.Sprintf("dyn_%s_%d", sanitize(canonType(sig)), i)
	fv.declUF(name, sorts, v.sortOf())
	v.T = fv.def("dyn", v.sortOf(), "("+name+" "+strings.Join(terms, " ")+")")
	if st != nil {
		fv.assumeWF(st, v)
	}
	return v, true
}

// nodeVal: the value of an SSA name at the node a contract expression is
// evaluated at (duplicated blocks keep their values per node).
func (in *inst) nodeVal(v ssa.Value) (Val, bool) {
	if in.atNode != nil {
		if x, ok := in.atNode.env[v]; ok {
			return x, true
		}
	}
	x, ok := in.vals[v]
	return x, ok
}
