package main

import (
	"fmt"
	"go/ast"
	"go/constant"
	"go/parser"
	"go/token"
	"go/types"
	"strconv"
	"strings"
)

// cenv is the environment in which a contract expression is evaluated.
type cenv struct {
	fv      *FnVC
	vars    map[string]Val
	st      *State // current state
	old     *State // state at function entry / before the call
	it0     *State // state at the loop header (step clauses)
	pre     *State // state just before the loop was entered (loop clauses)
	it0vars map[string]Val
	prevars map[string]Val
	qvars   map[string]Val // quantifier-bound variables (visible inside it0())
	pkg     *types.Package
	allocOld string // allocation counter at entry (fresh(x) <=> root(x) >= allocOld)
	subs    map[string]string // placeholders for parenthesised sub-specs
	bound   map[string]Val
	err     error
	where   string
	pol     int      // +1: the clause is a goal, -1: it is assumed, 0: unknown polarity
	ante    []string // antecedents enclosing the current sub-formula (assumed clauses)
	guard   string   // path guard under which an assumed clause holds
	goalSide bool    // the clause being evaluated is a proof goal (its index terms are instantiation points)
}

func (c *cenv) clone() *cenv {
	n := *c
	n.vars = map[string]Val{}
	for k, v := range c.vars {
		n.vars[k] = v
	}
	n.qvars = map[string]Val{}
	for k, v := range c.qvars {
		n.qvars[k] = v
	}
	return &n
}

func (c *cenv) fail(format string, a ...interface{}) Val {
	if c.err == nil {
		c.err = fmt.Errorf("%s: "+format, append([]interface{}{c.where}, a...)...)
	}
	return Val{K: KBool, T: "true", Typ: types.Typ[types.Bool]}
}

var boolT = types.Typ[types.Bool]
var intT = types.Typ[types.Int]

func bval(t string) Val { return Val{K: KBool, T: t, Typ: boolT} }

// evalGoal / evalAssume evaluate a clause with known polarity, so that
// universally quantified goals are Skolemised and universally quantified
// assumptions are instantiated lazily (quantifier-free VCs by construction).
func (c *cenv) evalGoal(src string) string {
	c.goalSide = true
	defer func() { c.goalSide = false }()
	c.pol = 1
	c.ante = nil
	t := c.evalSpec(src)
	c.pol = 0
	return t
}

func (c *cenv) evalAssume(guard, src string) string {
	c.pol = -1
	c.ante = nil
	c.guard = guard
	c.fv.quiet++
	t := c.evalSpec(src)
	c.fv.quiet--
	c.pol = 0
	return t
}

// evalSpec evaluates a contract expression to a Bool term.
func (c *cenv) evalSpec(src string) string {
	v := c.eval(src)
	if v.K != KBool {
		c.fail("clause is not boolean: %s", src)
		return "true"
	}
	return v.T
}

// eval handles the spec-level syntax (==>, <==>, forall/exists, sub-specs in
// parentheses) and delegates the rest to go/parser.
func (c *cenv) eval(src string) Val {
	src = strings.TrimSpace(src)
	if strings.HasPrefix(src, "forall ") || strings.HasPrefix(src, "exists ") {
		return c.evalQuant(src)
	}
	if parts := splitTopStr(src, "<==>"); len(parts) > 1 {
		sp := c.pol
		c.pol = 0
		a, b := c.eval(parts[0]), c.eval(strings.Join(parts[1:], "<==>"))
		c.pol = sp
		return bval(eq(a.T, b.T))
	}
	if parts := splitTopStr(src, "==>"); len(parts) > 1 {
		sp := c.pol
		c.pol = -sp
		sa := c.ante
		c.ante = nil
		a := c.eval(parts[0])
		c.pol = sp
		c.ante = append(append([]string(nil), sa...), a.T)
		b := c.eval(strings.Join(parts[1:], "==>"))
		c.ante = sa
		return bval(implies(a.T, b.T))
	}
	// replace parenthesised groups that contain spec syntax by placeholders
	if strings.Contains(src, "==>") || strings.Contains(src, "forall ") || strings.Contains(src, "exists ") {
		var b strings.Builder
		i := 0
		for i < len(src) {
			if src[i] == '(' {
				j := matchParen(src, i)
				if j < 0 {
					return c.fail("unbalanced parentheses in %q", src)
				}
				inner := src[i+1 : j]
				isCall := i > 0 && (isIdentChar(src[i-1]) || src[i-1] == ')' || src[i-1] == ']')
				if !isCall && (strings.Contains(inner, "==>") || strings.Contains(inner, "forall ") || strings.Contains(inner, "exists ")) {
					if c.subs == nil {
						c.subs = map[string]string{}
					}
					name := fmt.Sprintf("sub__%d", len(c.subs))
					c.subs[name] = inner
					b.WriteString(name)
					i = j + 1
					continue
				}
				if isCall && (strings.Contains(inner, "==>") || strings.Contains(inner, "forall ")) {
					// spec syntax inside call arguments (old(...), etc.): handle per argument
					args := splitTop(inner, ',')
					b.WriteByte('(')
					for ai, a := range args {
						if ai > 0 {
							b.WriteByte(',')
						}
						if strings.Contains(a, "==>") || strings.Contains(a, "forall ") || strings.Contains(a, "exists ") {
							if c.subs == nil {
								c.subs = map[string]string{}
							}
							name := fmt.Sprintf("sub__%d", len(c.subs))
							c.subs[name] = a
							b.WriteString(name)
						} else {
							b.WriteString(a)
						}
					}
					b.WriteByte(')')
					i = j + 1
					continue
				}
			}
			b.WriteByte(src[i])
			i++
		}
		src = b.String()
	}
	e, err := parser.ParseExpr(src)
	if err != nil {
		return c.fail("cannot parse %q: %v", src, err)
	}
	return c.expr(e)
}

func isIdentChar(b byte) bool {
	return b == '_' || (b >= 'a' && b <= 'z') || (b >= 'A' && b <= 'Z') || (b >= '0' && b <= '9')
}

func matchParen(s string, i int) int {
	d := 0
	for j := i; j < len(s); j++ {
		switch s[j] {
		case '(':
			d++
		case ')':
			d--
			if d == 0 {
				return j
			}
		}
	}
	return -1
}

func splitTopStr(s, sep string) []string {
	d := 0
	for i := 0; i+len(sep) <= len(s); i++ {
		switch s[i] {
		case '(', '[', '{':
			d++
		case ')', ']', '}':
			d--
		}
		if d == 0 && strings.HasPrefix(s[i:], sep) {
			if sep == "==>" && i > 0 && s[i-1] == '<' {
				continue
			}
			return []string{s[:i], s[i+len(sep):]}
		}
	}
	return []string{s}
}

// forall x in lo..hi :: body      (x ranges over int, lo <= x < hi)
// forall x Type :: body           (x ranges over all values of a scalar type)
func (c *cenv) evalQuant(src string) Val {
	q := "forall"
	if strings.HasPrefix(src, "exists ") {
		q = "exists"
	}
	rest := strings.TrimSpace(src[len(q):])
	i := strings.Index(rest, "::")
	if i < 0 {
		return c.fail("quantifier without '::' in %q", src)
	}
	head, body := strings.TrimSpace(rest[:i]), rest[i+2:]
	fv := c.fv
	var name, guard, loSrc, hiSrc string
	var hints []string
	var bv Val
	hf := strings.Fields(head)
	if len(hf) >= 3 && hf[1] == "in" {
		name = hf[0]
		rng := strings.Join(hf[2:], " ")
		if i := strings.Index(rng, " at("); i >= 0 {
			j := matchParen(rng, i+3)
			if j > 0 {
				for _, h := range splitTop(rng[i+4:j], ',') {
					hints = append(hints, strings.TrimSpace(h))
				}
				rng = strings.TrimSpace(rng[:i])
			}
		}
		p := strings.SplitN(rng, "..", 2)
		if len(p) != 2 {
			return c.fail("bad range in %q", src)
		}
		loSrc, hiSrc = p[0], p[1]
		fv.n++
		sym := fmt.Sprintf("%s!%d", name, fv.n)
		bv = Val{K: KBV, W: 64, T: sym, Typ: intT}
		if !(fv.boundDepth == 0 && c.pol != 0) {
			lo, hi := c.eval(p[0]), c.eval(p[1])
			guard = and("(bvsle "+c.as64(lo)+" "+sym+")", "(bvslt "+sym+" "+c.as64(hi)+")")
		}
	} else if len(hf) == 2 {
		name = hf[0]
		t := c.typeOf(hf[1])
		if t == nil {
			return c.fail("unknown type %q in quantifier", hf[1])
		}
		k, w, srt := kindOf(t)
		fv.n++
		bv = Val{K: k, W: w, Sort: srt, Typ: t, T: fmt.Sprintf("%s!%d", name, fv.n)}
		guard = "true"
	} else {
		return c.fail("bad quantifier head %q", head)
	}
	if fv.boundDepth == 0 && c.pol != 0 && (q == "forall" || c.pol < 0) {
		ranged := len(hf) >= 3 && hf[1] == "in"
		var lo64, hi64 string
		srt := bv.sortOf()
		if ranged {
			lo, hi := c.eval(loSrc), c.eval(hiSrc)
			lo64, hi64 = c.as64(lo), c.as64(hi)
		}
		mkGuard := func(x string) string {
			if !ranged {
				return "true"
			}
			return and("(bvsle "+lo64+" "+x+")", "(bvslt "+x+" "+hi64+")")
		}
		if (q == "forall" && c.pol > 0) || (q == "exists" && c.pol < 0) {
			// Skolemise
			sk := fv.decl(name+"_sk", srt)
			skv := bv
			skv.T = sk
			if !ranged {
				fv.assumeWF(c.st, skv)
			}
			c2 := c.clone()
			c2.vars[name] = skv
			c2.qvars[name] = skv
			fv.instantiateLazies(sk, srt)
			b := c2.eval(body)
			if c2.err != nil && c.err == nil {
				c.err = c2.err
			}
			if q == "forall" {
				return bval(implies(mkGuard(sk), b.T))
			}
			return bval(and(mkGuard(sk), b.T))
		}
		if q == "forall" && c.pol < 0 {
			// assumed universal: instantiate lazily at Skolem constants and hints
			cc := c.clone()
			cc.st = c.st.clone()
			cc.pol = -1
			lq := &lazyQuant{tag: fv.curTag, env: cc, name: name, proto: bv, sort: srt, mkGuard: mkGuard, body: body, guard: and(append([]string{c.guard}, c.ante...)...), done: map[string]bool{}}
			if ranged {
				lq.elems = c.indexedElems(name, body)
			}
			fv.lazies = append(fv.lazies, lq)
			for _, h := range hints {
				hv := c.eval(h)
				if ranged {
					fv.instantiate(lq, c.as64(hv))
				} else {
					fv.instantiate(lq, hv.T)
				}
			}
			for _, sk := range fv.skolems {
				if sk.sort == srt && fv.visible(sk.tag) && lq.relevant(sk.elem) {
					fv.instantiate(lq, sk.term)
				}
			}
			return bval("true")
		}
	}
	c2 := c.clone()
	c2.vars[name] = bv
	c2.qvars[name] = bv
	c2.pol = 0
	fv.boundDepth++
	b := c2.eval(body)
	fv.boundDepth--
	if c2.err != nil && c.err == nil {
		c.err = c2.err
	}
	var t string
	if q == "forall" {
		t = "(forall ((" + bv.T + " " + bv.sortOf() + ")) " + implies(guard, b.T) + ")"
	} else {
		t = "(exists ((" + bv.T + " " + bv.sortOf() + ")) " + and(guard, b.T) + ")"
	}
	return bval(t)
}

// lazyQuant is an assumed "forall x ... :: body" kept for instantiation.
type lazyQuant struct {
	env     *cenv
	name    string
	proto   Val
	sort    string
	mkGuard func(string) string
	body    string
	guard   string
	done    map[string]bool
	inst    map[string][]int
	tag     int
	elems   map[string]bool // element types indexed with the bound variable (nil = unknown)
}

type skolem struct {
	term string
	sort string
	tag  int
	elem string // element type of the slice the term indexes ("" = unknown: matches every quantified clause)
}

// visible: lines emitted at tag t are part of the slice of the current tag.
func (fv *FnVC) visible(t int) bool {
	if t == -1 || t == fv.curTag {
		return true
	}
	a := fv.anc[fv.curTag]
	return a != nil && a[t]
}

func (fv *FnVC) hasSkolem(t string) bool {
	for _, s := range fv.skolems {
		if s.term == t && fv.visible(s.tag) {
			return true
		}
	}
	return false
}

func (fv *FnVC) instantiateLazies(sk, srt string) { fv.instantiateLazies2(sk, srt, "") }

// instantiateLazies2: elem is the element type of the slice that sk indexes.
func (fv *FnVC) instantiateLazies2(sk, srt, elem string) {
	if fv.inInst > 0 {
		return // terms produced by an instantiation are not new instantiation points (no matching loops)
	}
	fv.skolems = append(fv.skolems, skolem{sk, srt, fv.curTag, elem})
	for _, lq := range fv.lazies {
		if lq.sort == srt && fv.visible(lq.tag) && lq.relevant(elem) {
			fv.instantiate(lq, sk)
		}
	}
}

func (lq *lazyQuant) relevant(elem string) bool {
	if elem == "" || len(lq.elems) == 0 {
		return true
	}
	return lq.elems[elem]
}

// indexedElems: element types of the slices that the body indexes with the bound variable.
func (c *cenv) indexedElems(name, body string) map[string]bool {
	out := map[string]bool{}
	e, err := parser.ParseExpr(strings.NewReplacer("==>", "&&", "<==>", "==", "forall ", "", "exists ", "", "::", "&&", " in ", " < ", "..", " < ").Replace(body))
	if err != nil {
		return nil
	}
	ok := true
	ast.Inspect(e, func(n ast.Node) bool {
		ix, isIx := n.(*ast.IndexExpr)
		if !isIx {
			return true
		}
		uses := false
		ast.Inspect(ix.Index, func(m ast.Node) bool {
			if id, isId := m.(*ast.Ident); isId && id.Name == name {
				uses = true
			}
			return true
		})
		if !uses {
			return true
		}
		c2 := c.clone()
		c2.pol = 0
		save := c.fv.inInst
		c.fv.inInst++
		var x Val
		if _, lt, isL := c2.lvalue(ix.X); isL && lt != nil {
			if a, isA := types.Unalias(lt).Underlying().(*types.Array); isA {
				c.fv.inInst = save
				out[canonType(a.Elem())] = true
				return true
			}
		}
		c2.err = nil
		x = c2.expr(ix.X)
		c.fv.inInst = save
		if c2.err != nil || x.Typ == nil {
			ok = false
			return true
		}
		switch t := types.Unalias(x.Typ).Underlying().(type) {
		case *types.Slice:
			out[canonType(t.Elem())] = true
		case *types.Pointer:
			if a, isA := t.Elem().Underlying().(*types.Array); isA {
				out[canonType(a.Elem())] = true
			} else {
				ok = false
			}
		default:
			ok = false
		}
		return true
	})
	if !ok {
		return nil
	}
	return out
}

func (fv *FnVC) instantiate(lq *lazyQuant, idx string) {
	if lq.inst == nil {
		lq.inst = map[string][]int{}
	}
	if fv.emittedHere(lq.inst, idx) {
		return
	}
	c2 := lq.env.clone()
	v := lq.proto
	v.T = idx
	c2.vars[lq.name] = v
	c2.qvars[lq.name] = v
	c2.pol = -1
	c2.ante = nil
	c2.guard = and(lq.guard, lq.mkGuard(idx))
	fv.inInst++
	fv.quiet++
	b := c2.eval(lq.body)
	fv.quiet--
	fv.inInst--
	if c2.err != nil {
		fv.specErr(c2.err)
		return
	}
	fv.emit("(assert " + implies(lq.guard, implies(lq.mkGuard(idx), b.T)) + ")")
}

func (c *cenv) as64(v Val) string {
	if v.K != KBV {
		c.fail("integer expected")
		return "#x0000000000000000"
	}
	if v.W == 64 {
		return v.T
	}
	if v.Typ != nil && !isSigned(v.Typ) {
		return fmt.Sprintf("((_ zero_extend %d) %s)", 64-v.W, v.T)
	}
	return fmt.Sprintf("((_ sign_extend %d) %s)", 64-v.W, v.T)
}

// typeOf resolves a type expression written in a contract.
func (c *cenv) typeOf(s string) types.Type {
	e, err := parser.ParseExpr(s)
	if err != nil {
		return nil
	}
	return c.typeExpr(e)
}

func (c *cenv) typeExpr(e ast.Expr) types.Type {
	switch e := e.(type) {
	case *ast.StarExpr:
		t := c.typeExpr(e.X)
		if t == nil {
			return nil
		}
		return types.NewPointer(t)
	case *ast.ParenExpr:
		return c.typeExpr(e.X)
	case *ast.ArrayType:
		t := c.typeExpr(e.Elt)
		if t == nil || e.Len != nil {
			return nil
		}
		return types.NewSlice(t)
	case *ast.Ident:
		if o := types.Universe.Lookup(e.Name); o != nil {
			if tn, ok := o.(*types.TypeName); ok {
				return tn.Type()
			}
		}
		if o := c.pkg.Scope().Lookup(e.Name); o != nil {
			if tn, ok := o.(*types.TypeName); ok {
				return tn.Type()
			}
		}
	case *ast.SelectorExpr:
		if id, ok := e.X.(*ast.Ident); ok {
			if p := c.findPkg(id.Name); p != nil {
				if o := p.Scope().Lookup(e.Sel.Name); o != nil {
					if tn, ok := o.(*types.TypeName); ok {
						return tn.Type()
					}
				}
			}
		}
	case *ast.InterfaceType:
		return types.NewInterfaceType(nil, nil)
	case *ast.MapType:
		k, v := c.typeExpr(e.Key), c.typeExpr(e.Value)
		if k == nil || v == nil {
			return nil
		}
		return types.NewMap(k, v)
	}
	return nil
}

func (c *cenv) findPkg(name string) *types.Package {
	if c.pkg.Name() == name {
		return c.pkg
	}
	for _, im := range c.pkg.Imports() {
		if im.Name() == name {
			return im
		}
	}
	for path, p := range c.fv.eng.tpkgs {
		if shortPkg(path) == name || p.Name() == name {
			if strings.HasPrefix(path, modPath) {
				return p
			}
		}
	}
	for _, p := range c.fv.eng.tpkgs {
		if p.Name() == name {
			return p
		}
	}
	return nil
}

func (c *cenv) expr(e ast.Expr) Val {
	fv := c.fv
	switch e := e.(type) {
	case *ast.ParenExpr:
		return c.expr(e.X)
	case *ast.BasicLit:
		switch e.Kind {
		case token.INT:
			cv := constant.MakeFromLiteral(e.Value, token.INT, 0)
			x, _ := constant.Int64Val(cv)
			if u, ok := constant.Uint64Val(cv); ok && x == 0 && u != 0 {
				return Val{K: KBV, W: 64, T: bvConst(64, u), Typ: types.Typ[types.UntypedInt]}
			}
			return Val{K: KBV, W: 64, T: bv64(x), Typ: types.Typ[types.UntypedInt]}
		case token.FLOAT:
			f, _ := strconv.ParseFloat(e.Value, 64)
			return Val{K: KFP, W: 64, T: fpLit(64, f), Typ: types.Typ[types.Float64]}
		case token.STRING:
			s, _ := strconv.Unquote(e.Value)
			return Val{K: KStr, T: fv.strLit(s), Typ: types.Typ[types.String]}
		case token.CHAR:
			s, _, _, _ := strconv.UnquoteChar(e.Value[1:len(e.Value)-1], '\'')
			return Val{K: KBV, W: 32, T: bvConst(32, uint64(s)), Typ: types.Typ[types.UntypedRune]}
		}
	case *ast.Ident:
		return c.ident(e.Name)
	case *ast.SelectorExpr:
		// package-qualified name?
		if id, ok := e.X.(*ast.Ident); ok {
			if _, isVar := c.vars[id.Name]; !isVar && id.Name != "result" {
				if id.Name == "spec" {
					return c.fail("spec function %s used without arguments", e.Sel.Name)
				}
				if p := c.findPkg(id.Name); p != nil {
					return c.pkgMember(p, e.Sel.Name)
				}
			}
		}
		x := c.expr(e.X)
		return c.field(x, e.Sel.Name)
	case *ast.StarExpr:
		x := c.expr(e.X)
		pt, ok := types.Unalias(x.Typ).Underlying().(*types.Pointer)
		if !ok {
			return c.fail("dereference of non-pointer")
		}
		return fv.load(c.st, x.T, pt.Elem())
	case *ast.UnaryExpr:
		if e.Op == token.AND {
			loc, t, ok := c.lvalue(e.X)
			if !ok {
				return c.fail("address-of: operand is not a location")
			}
			return Val{K: KLoc, T: loc, Typ: types.NewPointer(t)}
		}
		sp := c.pol
		if e.Op == token.NOT {
			c.pol = -sp
		}
		x := c.expr(e.X)
		c.pol = sp
		switch e.Op {
		case token.NOT:
			return bval(not(x.T))
		case token.SUB:
			if x.K == KFP {
				return Val{K: KFP, W: x.W, T: "(fp.neg " + x.T + ")", Typ: x.Typ}
			}
			return Val{K: KBV, W: x.W, T: "(bvneg " + x.T + ")", Typ: x.Typ}
		case token.XOR:
			return Val{K: KBV, W: x.W, T: "(bvnot " + x.T + ")", Typ: x.Typ}
		case token.AND:
			return c.fail("address-of of a computed value")
		}
	case *ast.BinaryExpr:
		if e.Op == token.LAND || e.Op == token.LOR {
			a := c.expr(e.X)
			sa := c.ante
			if e.Op == token.LOR && c.pol < 0 {
				c.ante = append(append([]string(nil), sa...), not(a.T))
			}
			b := c.expr(e.Y)
			c.ante = sa
			if a.K != KBool || b.K != KBool {
				return c.fail("boolean operands expected for %s", e.Op)
			}
			if e.Op == token.LAND {
				return bval(and(a.T, b.T))
			}
			return bval(or(a.T, b.T))
		}
		sp0 := c.pol
		c.pol = 0
		a, b := c.expr(e.X), c.expr(e.Y)
		c.pol = sp0
		a, b = c.unify(a, b)
		if (a.Sort == "nocall" || b.Sort == "nocall") && a.K != b.K && (e.Op == token.EQL || e.Op == token.NEQ) {
			// a record of a call that did not happen on this path: nothing is known about it
			return bval(fv.decl("nocall", "Bool"))
		}
		if a.K != b.K && !(a.K == KLoc && b.K == KLoc) {
			return c.fail("operand kinds differ in %s (%d vs %d)", e.Op, a.K, b.K)
		}
		tr := a.Typ
		switch e.Op {
		case token.EQL, token.NEQ, token.LSS, token.LEQ, token.GTR, token.GEQ:
			tr = boolT
		}
		tb := b.Typ
		if e.Op == token.SHL || e.Op == token.SHR {
			if tb == nil || isUntyped(tb) {
				tb = types.Typ[types.Uint64]
			}
		}
		in := &inst{fv: fv}
		save := fv.boundDepth
		r := in.binop(nil, c.st, e.Op, a, b, a.Typ, tb, tr, token.NoPos)
		fv.boundDepth = save
		return r
	case *ast.IndexExpr:
		if loc, t, ok := c.lvalue(e); ok {
			return fv.load(c.st, loc, t)
		}
		x := c.expr(e.X)
		i := c.expr(e.Index)
		return c.index(x, i)
	case *ast.SliceExpr:
		x := c.expr(e.X)
		if x.K != KSlice {
			return c.fail("slice expression on non-slice")
		}
		lo := "#x0000000000000000"
		hi := "(slen " + x.T + ")"
		if e.Low != nil {
			lo = c.as64(c.expr(e.Low))
		}
		if e.High != nil {
			hi = c.as64(c.expr(e.High))
		}
		return Val{K: KSlice, Typ: x.Typ, T: fmt.Sprintf("(mkslice (sarr %s) (bvadd (soff %s) %s) (bvsub %s %s) (bvsub (scap %s) %s))", x.T, x.T, lo, hi, lo, x.T, lo)}
	case *ast.TypeAssertExpr:
		x := c.expr(e.X)
		t := c.typeExpr(e.Type)
		if t == nil || x.K != KIface {
			return c.fail("bad type assertion")
		}
		if types.IsInterface(t) {
			x.Typ = t
			return x
		}
		in := &inst{fv: fv}
		return in.unbox(c.st, x, t)
	case *ast.CallExpr:
		return c.call(e)
	}
	return c.fail("unsupported expression %T", e)
}

func isUntyped(t types.Type) bool {
	b, ok := t.(*types.Basic)
	return ok && b.Info()&types.IsUntyped != 0
}

// unify adapts untyped constants to the other operand's type.
func (c *cenv) unify(a, b Val) (Val, Val) {
	if a.K == KBV && b.K == KBV && a.W != b.W {
		if a.Typ != nil && isUntyped(a.Typ) {
			a = c.resize(a, b)
		} else if b.Typ != nil && isUntyped(b.Typ) {
			b = c.resize(b, a)
		}
	}
	if a.K == KBV && b.K == KBV && a.Typ != nil && isUntyped(a.Typ) && b.Typ != nil && !isUntyped(b.Typ) {
		a.Typ = b.Typ
	} else if a.K == KBV && b.K == KBV && b.Typ != nil && isUntyped(b.Typ) && a.Typ != nil && !isUntyped(a.Typ) {
		b.Typ = a.Typ
	}
	if a.K == KBV && b.K == KFP && a.Typ != nil && isUntyped(a.Typ) {
		a = Val{K: KFP, W: b.W, T: fmt.Sprintf("((_ to_fp %s) RNE %s)", fpDims(b.W), a.T), Typ: b.Typ}
	}
	if b.K == KBV && a.K == KFP && b.Typ != nil && isUntyped(b.Typ) {
		b = Val{K: KFP, W: a.W, T: fmt.Sprintf("((_ to_fp %s) RNE %s)", fpDims(a.W), b.T), Typ: a.Typ}
	}
	// pointer compared with interface value: wrap with the pointer's static type
	if a.K == KIface && b.K == KLoc && b.T != "nil!" && b.Typ != nil {
		b = Val{K: KIface, T: fmt.Sprintf("(mkiface %d %s)", c.fv.eng.tagOf(b.Typ), b.T), Typ: a.Typ}
	}
	if b.K == KIface && a.K == KLoc && a.T != "nil!" && a.Typ != nil {
		a = Val{K: KIface, T: fmt.Sprintf("(mkiface %d %s)", c.fv.eng.tagOf(a.Typ), a.T), Typ: b.Typ}
	}
	// nil against pointer / slice / interface
	if a.T == "nil!" {
		a = c.fv.zeroVal(b.Typ)
	}
	if b.T == "nil!" {
		b = c.fv.zeroVal(a.Typ)
	}
	return a, b
}

func (c *cenv) resize(a, to Val) Val {
	if a.W > to.W {
		a.T = fmt.Sprintf("((_ extract %d 0) %s)", to.W-1, a.T)
	} else {
		a.T = fmt.Sprintf("((_ sign_extend %d) %s)", to.W-a.W, a.T)
	}
	a.W = to.W
	a.Typ = to.Typ
	return a
}

func (c *cenv) ident(name string) Val {
	fv := c.fv
	if v, ok := c.vars[name]; ok {
		return v
	}
	switch name {
	case "true":
		return bval("true")
	case "false":
		return bval("false")
	case "nil":
		return Val{K: KLoc, T: "nil!", Typ: types.Typ[types.UntypedNil]}
	}
	if strings.HasPrefix(name, "sub__") {
		if s, ok := c.subs[name]; ok {
			return c.eval(s)
		}
	}
	return c.pkgMemberOr(c.pkg, name, func() Val {
		_ = fv
		return c.fail("unknown identifier %q", name)
	})
}

func (c *cenv) pkgMember(p *types.Package, name string) Val {
	return c.pkgMemberOr(p, name, func() Val { return c.fail("unknown name %s.%s", p.Name(), name) })
}

func (c *cenv) pkgMemberOr(p *types.Package, name string, els func() Val) Val {
	fv := c.fv
	o := p.Scope().Lookup(name)
	switch o := o.(type) {
	case *types.Const:
		k, w, _ := kindOf(o.Type())
		switch k {
		case KBV:
			x, exact := constant.Int64Val(constant.ToInt(o.Val()))
			if !exact {
				u, _ := constant.Uint64Val(constant.ToInt(o.Val()))
				x = int64(u)
			}
			return Val{K: KBV, W: w, T: bvConst(w, uint64(x)), Typ: o.Type()}
		case KBool:
			return bval(fmt.Sprint(constant.BoolVal(o.Val())))
		case KStr:
			return Val{K: KStr, T: fv.strLit(constant.StringVal(o.Val())), Typ: o.Type()}
		case KFP:
			f, _ := constant.Float64Val(o.Val())
			return Val{K: KFP, W: w, T: fpLit(w, f), Typ: o.Type()}
		}
	case *types.Var:
		sp := fv.eng.pkgs[p.Path()]
		if sp != nil {
			if g, ok := sp.Members[name].(interface{ Type() types.Type }); ok {
				_ = g
			}
			if g := sp.Var(name); g != nil {
				if s := fv.eng.sentinels[g]; s != nil {
					return fv.sentinelVal(s, o.Type())
				}
				return fv.load(c.st, fv.globalLoc(g), o.Type())
			}
		}
	}
	return els()
}

// field selects a struct field through a pointer or a struct value.
func (c *cenv) field(x Val, name string) Val {
	fv := c.fv
	if x.Typ == nil {
		return c.fail("selector .%s on untyped value", name)
	}
	t := types.Unalias(x.Typ)
	ptr := false
	if p, ok := t.Underlying().(*types.Pointer); ok {
		t = p.Elem()
		ptr = true
	}
	st, ok := types.Unalias(t).Underlying().(*types.Struct)
	if !ok {
		return c.fail("selector .%s on non-struct %s", name, x.Typ)
	}
	idx, ft, path := findField(st, name)
	if idx < 0 {
		return c.fail("no field %s in %s", name, t)
	}
	if ptr {
		loc := x.T
		for _, pi := range path {
			loc = lfield(loc, pi)
		}
		lv := fv.load(c.st, loc, ft)
		if len(path) == 1 && fv.boundDepth == 0 {
			if fi := fv.eng.fieldInvs[fmt.Sprintf("%s#%d", canonType(t), path[0])]; fi != nil && !strings.HasPrefix(fi.Clause.Name, "nowrite") {
				ce := &cenv{fv: fv, vars: map[string]Val{"v": lv}, st: c.st, pkg: fv.eng.tpkgs[fi.PkgPath], allocOld: c.allocOld, where: "fieldinv"}
				fv.assume(c.st.reach, ce.evalAssume(c.st.reach, fi.Clause.Expr))
			}
		}
		return lv
	}
	v := x
	for _, pi := range path {
		if pi >= len(v.Fs) {
			return c.fail("struct value has no component %d", pi)
		}
		v = v.Fs[pi]
	}
	return v
}

// findField finds a (possibly promoted) field; path is the field index chain.
func findField(st *types.Struct, name string) (int, types.Type, []int) {
	for i := 0; i < st.NumFields(); i++ {
		if st.Field(i).Name() == name {
			return i, st.Field(i).Type(), []int{i}
		}
	}
	for i := 0; i < st.NumFields(); i++ {
		f := st.Field(i)
		if f.Embedded() {
			if es, ok := types.Unalias(f.Type()).Underlying().(*types.Struct); ok {
				if j, t, p := findField(es, name); j >= 0 {
					return i, t, append([]int{i}, p...)
				}
			}
		}
	}
	return -1, nil, nil
}

func (c *cenv) index(x, i Val) Val {
	fv := c.fv
	switch t := types.Unalias(x.Typ).Underlying().(type) {
	case *types.Slice:
		return fv.load(c.st, lelem("(sarr "+x.T+")", "(bvadd (soff "+x.T+") "+c.as64(i)+")"), t.Elem())
	case *types.Pointer:
		if a, ok := t.Elem().Underlying().(*types.Array); ok {
			return fv.load(c.st, lelem(x.T, c.as64(i)), a.Elem())
		}
	case *types.Map:
		_, i = c.unify(Val{K: KBV, W: 64, Typ: t.Key()}, i)
		v, _ := fv.mapGet(c.st, x.Typ, x.T, i.T)
		return v
	case *types.Basic:
		if x.K == KStr {
			return Val{K: KBV, W: 8, T: "(s_at " + x.T + " " + c.as64(i) + ")", Typ: types.Typ[types.Uint8]}
		}
	case *types.Array:
		// array-valued field loaded as components
		if n, ok := constInt(i.T); ok && int(n) < len(x.Fs) {
			return x.Fs[n]
		}
	}
	return c.fail("cannot index %s", x.Typ)
}

func constInt(t string) (int64, bool) {
	if strings.HasPrefix(t, "#x") {
		u, err := strconv.ParseUint(t[2:], 16, 64)
		return int64(u), err == nil
	}
	return 0, false
}

// lvalue evaluates an expression to the location(s) it denotes.
func (c *cenv) lvalue(e ast.Expr) (loc string, t types.Type, ok bool) {
	switch e := e.(type) {
	case *ast.ParenExpr:
		return c.lvalue(e.X)
	case *ast.StarExpr:
		x := c.expr(e.X)
		if pt, isP := types.Unalias(x.Typ).Underlying().(*types.Pointer); isP {
			return x.T, pt.Elem(), true
		}
	case *ast.SelectorExpr:
		var base string
		var bt types.Type
		if l, t, ok := c.lvalue(e.X); ok {
			if _, isP := types.Unalias(t).Underlying().(*types.Pointer); !isP {
				base, bt = l, t
			}
		}
		if base == "" {
			x := c.expr(e.X)
			pt, isP := types.Unalias(x.Typ).Underlying().(*types.Pointer)
			if !isP {
				return "", nil, false
			}
			base, bt = x.T, pt.Elem()
		}
		st, isS := types.Unalias(bt).Underlying().(*types.Struct)
		if !isS {
			return "", nil, false
		}
		_, ft, path := findField(st, e.Sel.Name)
		if path == nil {
			return "", nil, false
		}
		for _, p := range path {
			base = lfield(base, p)
		}
		return base, ft, true
	case *ast.IndexExpr:
		if l, t, ok := c.lvalue(e.X); ok {
			if a, isA := types.Unalias(t).Underlying().(*types.Array); isA {
				return lelem(l, c.as64(c.expr(e.Index))), a.Elem(), true
			}
		}
		x := c.expr(e.X)
		if x.Typ == nil {
			return "", nil, false
		}
		if s, isS := types.Unalias(x.Typ).Underlying().(*types.Slice); isS {
			idx := c.as64(c.expr(e.Index))
			if c.goalSide && c.fv.boundDepth == 0 && !strings.Contains(idx, "!") && !c.fv.hasSkolem(idx) {
				// index terms written in contracts are instantiation points too
				c.fv.instantiateLazies2(idx, bvSort(64), canonType(s.Elem()))
			}
			loc := lelem("(sarr "+x.T+")", "(bvadd (soff "+x.T+") "+idx+")")
			if sel, isSel := ast.Unparen(e.X).(*ast.SelectorExpr); isSel && len(c.fv.eng.nilable) > 0 {
				if bx := c.expr(sel.X); bx.Typ != nil {
					if pt, isP := types.Unalias(bx.Typ).Underlying().(*types.Pointer); isP && c.fv.eng.nilable[canonType(pt.Elem())+"#"+sel.Sel.Name] {
						c.fv.nilableLocs[loc] = true
					}
				}
			}
			return loc, s.Elem(), true
		}
	case *ast.Ident:
		// address-taken local bound as pointer? not supported
	}
	return "", nil, false
}

func (c *cenv) call(e *ast.CallExpr) Val {
	sp := c.pol
	c.pol = 0
	defer func() { c.pol = sp }()
	fv := c.fv
	// spec.f(...)
	if sel, ok := e.Fun.(*ast.SelectorExpr); ok {
		if id, ok := sel.X.(*ast.Ident); ok && id.Name == "spec" {
			return c.specCall(sel.Sel.Name, e.Args)
		}
	}
	if id, ok := e.Fun.(*ast.Ident); ok {
		switch id.Name {
		case "old":
			if c.old == nil {
				return c.fail("old() not available here")
			}
			c2 := *c
			c2.st = c.old
			v := c2.expr(e.Args[0])
			if c2.err != nil {
				c.err = c2.err
			}
			return v
		case "pre":
			if c.pre == nil {
				return c.fail("pre() only inside loop clauses")
			}
			c2 := *c
			c2.st = c.pre
			if c.prevars != nil {
				c2.vars = map[string]Val{}
				for k, v := range c.vars {
					c2.vars[k] = v
				}
				for k, v := range c.prevars {
					c2.vars[k] = v // loop-carried names denote their values at loop entry
				}
				for k, v := range c.qvars {
					c2.vars[k] = v
				}
			}
			v := c2.expr(e.Args[0])
			if c2.err != nil {
				c.err = c2.err
			}
			return v
		case "callarg":
			fid, ok1 := e.Args[0].(*ast.Ident)
			il, ok2 := e.Args[1].(*ast.BasicLit)
			if !ok1 || !ok2 {
				return c.fail("callarg(function, index)")
			}
			if v, ok := c.st.ghost["arg:"+fid.Name+"."+il.Value]; ok {
				return v
			}
			// no such call on this path: an unconstrained value (the clause cannot be proved from it)
			return Val{K: KIface, T: fv.decl("nocall", "Iface"), Typ: types.NewInterfaceType(nil, nil), Sort: "nocall"}
		case "it0":
			if c.it0 == nil {
				return c.fail("it0() only inside loop step clauses")
			}
			c2 := *c
			c2.st = c.it0
			c2.vars = map[string]Val{}
			for k, v := range c.vars {
				c2.vars[k] = v // SSA values named in the body are immutable: only the state differs
			}
			for k, v := range c.it0vars {
				c2.vars[k] = v
			}
			for k, v := range c.qvars {
				c2.vars[k] = v
			}
			v := c2.expr(e.Args[0])
			if c2.err != nil {
				c.err = c2.err
			}
			return v
		case "len", "cap":
			x := c.expr(e.Args[0])
			switch x.K {
			case KSlice:
				if id.Name == "len" {
					return Val{K: KBV, W: 64, T: "(slen " + x.T + ")", Typ: intT}
				}
				return Val{K: KBV, W: 64, T: "(scap " + x.T + ")", Typ: intT}
			case KStr:
				return Val{K: KBV, W: 64, T: "(s_len " + x.T + ")", Typ: intT}
			case KLoc:
				if _, isMap := types.Unalias(x.Typ).Underlying().(*types.Map); isMap {
					ms := fv.mapSorts(x.Typ)
					return Val{K: KBV, W: 64, T: ite(eq(x.T, "LNil"), "#x0000000000000000", fv.mapLen(c.st, ms, x.T)), Typ: intT}
				}
				if pt, isP := types.Unalias(x.Typ).Underlying().(*types.Pointer); isP {
					if a, isA := pt.Elem().Underlying().(*types.Array); isA {
						return Val{K: KBV, W: 64, T: bv64(a.Len()), Typ: intT}
					}
				}
			case KStruct:
				return Val{K: KBV, W: 64, T: bv64(int64(len(x.Fs))), Typ: intT}
			}
			return c.fail("len/cap of unsupported value")
		case "fresh":
			x := c.expr(e.Args[0])
			switch x.K {
			case KLoc:
				return bval("(>= (root " + x.T + ") " + c.allocOld + ")")
			case KSlice:
				return bval("(>= (root (sarr " + x.T + ")) " + c.allocOld + ")")
			case KIface:
				return bval("(>= (root (idat " + x.T + ")) " + c.allocOld + ")")
			}
			return c.fail("fresh() of non-reference value")
		case "callfn", "callfn1":
			// callfn(f, a...) = result 0 (callfn1: result 1) of the pure call f(a...)
			fval := c.fnValue(c.expr(e.Args[0]))
			sig, ok := types.Unalias(tOrNil(fval.Typ)).Underlying().(*types.Signature)
			if !ok {
				return c.fail("callfn: first argument is not a function value")
			}
			var as []Val
			for i, a := range e.Args[1:] {
				av := c.expr(a)
				if i < sig.Params().Len() {
					pk, pw, _ := kindOf(sig.Params().At(i).Type())
					if av.K == KBV && pk == KBV && av.W != pw {
						av = c.resize(av, Val{K: KBV, W: pw, Typ: sig.Params().At(i).Type()})
					}
				}
				as = append(as, av)
			}
			idx := 0
			if id.Name == "callfn1" {
				idx = 1
			}
			v, ok := fv.pureDyn(nil, fval, sig, as, idx)
			if !ok {
				return c.fail("callfn: unsupported signature")
			}
			return v
		case "same":
			// same(a, b): identical values (for floats: same bits, unlike ==)
			a, b := c.expr(e.Args[0]), c.expr(e.Args[1])
			a, b = c.unify(a, b)
			if a.K == KStruct || a.K == KTuple {
				return c.fail("same() of aggregate")
			}
			return bval(eq(a.T, b.T))
		case "nonnilfn":
			fval := c.fnValue(c.expr(e.Args[0]))
			return bval(not(eq(fval.T, "LNil")))
		case "freshit", "freshloop":
			// freshit: allocated since the loop header snapshot; freshloop: since the loop was entered
			from := c.it0
			if id.Name == "freshloop" {
				from = c.pre
			}
			if from == nil {
				return c.fail(id.Name + "() only inside loop clauses")
			}
			x := c.expr(e.Args[0])
			switch x.K {
			case KLoc:
				return bval("(>= (root " + x.T + ") " + from.alloc + ")")
			case KSlice:
				return bval("(>= (root (sarr " + x.T + ")) " + from.alloc + ")")
			case KIface:
				return bval("(>= (root (idat " + x.T + ")) " + from.alloc + ")")
			}
			return c.fail(id.Name + "() of non-reference value")
		case "callresult":
			// callresult(Method, i): i-th result of the latest call of interface method Method on this path
			mid, ok1 := e.Args[0].(*ast.Ident)
			il, ok2 := e.Args[1].(*ast.BasicLit)
			if !ok1 || !ok2 {
				return c.fail("callresult(Method, index)")
			}
			v, ok := c.st.ghost[mid.Name+"."+il.Value]
			if !ok {
				return Val{K: KIface, T: "niliface", Typ: types.Universe.Lookup("error").Type(), Sort: "nocall"}
			}
			return v
		case "called":
			mid, ok1 := e.Args[0].(*ast.Ident)
			if !ok1 {
				return c.fail("called(Method)")
			}
			if h, ok := c.st.ghost["has:"+mid.Name+".0"]; ok {
				return h
			}
			_, ok := c.st.ghost[mid.Name+".0"]
			return bval(fmt.Sprint(ok))
		case "purecall":
			// purecall(f, args...): the (first) result of the Go function f, which carries a `pure` contract
			fid, ok1 := e.Args[0].(*ast.Ident)
			if !ok1 || c.pkg == nil {
				return c.fail("purecall(function, args...)")
			}
			f, err := fv.eng.resolveFunc(c.pkg.Path(), fid.Name)
			if err != nil || f == nil {
				return c.fail("purecall: no function %s", fid.Name)
			}
			if ct := fv.eng.contracts[f]; ct == nil || !ct.Pure {
				return c.fail("purecall: %s has no pure contract", fid.Name)
			}
			var sorts, terms []string
			for _, a := range e.Args[1:] {
				v := c.expr(a)
				if v.K == KStruct || v.K == KTuple {
					return c.fail("purecall: aggregate argument")
				}
				sorts = append(sorts, v.sortOf())
				terms = append(terms, v.T)
			}
			rt := f.Signature.Results().At(0).Type()
			k, w, srt := kindOf(rt)
			v := Val{K: k, W: w, Sort: srt, Typ: rt}
			uf := fmt.Sprintf("uf_%s_%d", sanitize(funcKey(f)), 0)
			fv.declUF(uf, sorts, v.sortOf())
			v.T = "(" + uf + " " + strings.Join(terms, " ") + ")"
			return v
		case "staticresult":
			// staticresult(f, i): i-th result of the latest (static) call of function/method f on this path
			fid, ok1 := e.Args[0].(*ast.Ident)
			il, ok2 := e.Args[1].(*ast.BasicLit)
			if !ok1 || !ok2 {
				return c.fail("staticresult(function, index)")
			}
			if v, ok := c.st.ghost["res:"+fid.Name+"."+il.Value]; ok {
				return v
			}
			// no such call on this path: an unconstrained value of the result's type
			if c.pkg != nil {
				idx, _ := strconv.Atoi(il.Value)
				for _, mf := range fv.eng.modFuncs {
					if mf.Name() == fid.Name && mf.Pkg != nil && mf.Pkg.Pkg == c.pkg && idx < mf.Signature.Results().Len() {
						fv.quiet++
						u := fv.unknown(c.st, mf.Signature.Results().At(idx).Type(), "nocall")
						fv.quiet--
						return u
					}
				}
			}
			return Val{K: KIface, T: fv.decl("nocall", "Iface"), Typ: types.NewInterfaceType(nil, nil), Sort: "nocall"}
		case "calledfn":
			// calledfn(f): function/method f was called (statically) on this path
			fid, ok1 := e.Args[0].(*ast.Ident)
			if !ok1 {
				return c.fail("calledfn(function)")
			}
			if h, ok := c.st.ghost["has:arg:"+fid.Name+".0"]; ok {
				return h
			}
			_, ok := c.st.ghost["arg:"+fid.Name+".0"]
			return bval(fmt.Sprint(ok))
		case "allocated":
			// allocated(x): x existed before the call
			x := c.expr(e.Args[0])
			switch x.K {
			case KLoc:
				return bval("(< (root " + x.T + ") " + c.allocOld + ")")
			case KSlice:
				return bval("(< (root (sarr " + x.T + ")) " + c.allocOld + ")")
			case KIface:
				return bval("(< (root (idat " + x.T + ")) " + c.allocOld + ")")
			}
			return c.fail("allocated() of non-reference value")
		case "is":
			x := c.expr(e.Args[0])
			t := c.typeExpr(e.Args[1])
			if t == nil || x.K != KIface {
				return c.fail("bad is(): %s (kind %d, type %v)", exprString(e), x.K, t)
			}
			if types.IsInterface(t) {
				return bval(and(not(eq("(itag "+x.T+")", "0")), "("+fv.implPred(t)+" (itag "+x.T+"))"))
			}
			if k := c.knownTag(x); k > 0 {
				return bval(fmt.Sprint(k == fv.eng.tagOf(t)))
			}
			return bval(eq("(itag "+x.T+")", fmt.Sprint(fv.eng.tagOf(t))))
		case "sameslice":
			a, b := c.expr(e.Args[0]), c.expr(e.Args[1])
			return bval(eq(a.T, b.T))
		case "samearray":
			a, b := c.expr(e.Args[0]), c.expr(e.Args[1])
			return bval(eq("(sarr "+a.T+")", "(sarr "+b.T+")"))
		case "samestore":
			// samestore(s, t): same backing array, offset and capacity (lengths may differ)
			a, b := c.expr(e.Args[0]), c.expr(e.Args[1])
			return bval(and(eq("(sarr "+a.T+")", "(sarr "+b.T+")"), eq("(soff "+a.T+")", "(soff "+b.T+")"), eq("(scap "+a.T+")", "(scap "+b.T+")")))
		case "disjoint":
			// disjoint(s, t): the backing storage of two slices does not overlap
			a, b := c.expr(e.Args[0]), c.expr(e.Args[1])
			return bval(or(not(eq("(sarr "+a.T+")", "(sarr "+b.T+")")),
				"(bvsle (bvadd (soff "+a.T+") (scap "+a.T+")) (soff "+b.T+"))",
				"(bvsle (bvadd (soff "+b.T+") (scap "+b.T+")) (soff "+a.T+"))"))
		case "view":
			x := c.expr(e.Args[0])
			if x.K == KLoc && x.Typ != nil {
				x = Val{K: KIface, T: fmt.Sprintf("(mkiface %d %s)", fv.eng.tagOf(x.Typ), x.T), Typ: x.Typ}
			}
			if x.K != KIface {
				return c.fail("view() of non-object")
			}
			return c.view(x)
		case "mutablekind":
			// the value's representation holds script-mutable state (array, map, bytes, error payload)
			x := c.expr(e.Args[0])
			if x.K != KIface {
				return c.fail("mutablekind() of non-object")
			}
			tp := fv.eng.tpkgs[modPath]
			var ds []string
			for _, n := range []string{"Array", "ImmutableArray", "Map", "ImmutableMap", "Bytes", "Error"} {
				o := tp.Scope().Lookup(n)
				if o == nil {
					return c.fail("mutablekind: type %s not found", n)
				}
				tag := fv.eng.tagOf(types.NewPointer(o.Type()))
				if k := c.knownTag(x); k > 0 {
					if k == tag {
						return bval("true")
					}
					continue
				}
				ds = append(ds, eq("(itag "+x.T+")", fmt.Sprint(tag)))
			}
			return bval(or(ds...))
		case "boolobj":
			b := c.expr(e.Args[0])
			return c.boolObj(b.T)
		case "ite":
			cnd := c.expr(e.Args[0])
			a, b := c.expr(e.Args[1]), c.expr(e.Args[2])
			a, b = c.unify(a, b)
			return fv.mergeVals([]string{cnd.T, "true"}, []Val{a, b})
		case "tagof":
			x := c.expr(e.Args[0])
			return Val{K: KOpaque, Sort: "Int", T: "(itag " + x.T + ")"}
		case "ptrof":
			x := c.expr(e.Args[0])
			return Val{K: KLoc, T: "(idat " + x.T + ")", Typ: types.Typ[types.UnsafePointer]}
		case "sameobj":
			a, b := c.expr(e.Args[0]), c.expr(e.Args[1])
			return bval(eq(a.T, b.T))
		case "haskey":
			m, k := c.expr(e.Args[0]), c.expr(e.Args[1])
			_, has := fv.mapGet(c.st, m.Typ, m.T, k.T)
			return bval(has)
		}
		// conversions T(x)
		if t := c.typeExpr(e.Fun); t != nil && len(e.Args) == 1 {
			x := c.expr(e.Args[0])
			if x.Typ == nil || isUntyped(x.Typ) {
				if x.K == KBV {
					x.Typ = types.Typ[types.Int64]
				}
			}
			in := &inst{fv: fv}
			save := fv.boundDepth
			r := in.convert(nil, c.st, x, x.Typ, t)
			fv.boundDepth = save
			return r
		}
	}
	if t := c.typeExpr(e.Fun); t != nil && len(e.Args) == 1 {
		x := c.expr(e.Args[0])
		in := &inst{fv: fv}
		return in.convert(nil, c.st, x, x.Typ, t)
	}
	return c.fail("unsupported call in contract: %s", exprString(e.Fun))
}

func exprString(e ast.Expr) string {
	switch e := e.(type) {
	case *ast.Ident:
		return e.Name
	case *ast.SelectorExpr:
		return exprString(e.X) + "." + e.Sel.Name
	}
	return fmt.Sprintf("%T", e)
}

// boolObj maps a Bool term to TrueValue / FalseValue.
func (c *cenv) boolObj(b string) Val {
	fv := c.fv
	sp := fv.eng.pkgs[modPath]
	tv, fvv := sp.Var("TrueValue"), sp.Var("FalseValue")
	st, sf := fv.eng.sentinels[tv], fv.eng.sentinels[fvv]
	if st == nil || sf == nil {
		return c.fail("boolobj needs TrueValue/FalseValue declared as sentinels")
	}
	t := tv.Type().(*types.Pointer).Elem()
	return Val{K: KIface, T: ite(b, fv.sentinelVal(st, t).T, fv.sentinelVal(sf, t).T), Typ: t}
}

// view builds the abstract value (sort V of spec/10_values.smt2) of a Tengo
// object in the current state.
func (c *cenv) view(x Val) Val {
	fv := c.fv
	tp := fv.eng.tpkgs[modPath]
	ptrTo := func(name string) (types.Type, *types.Struct) {
		o := tp.Scope().Lookup(name)
		if o == nil {
			return nil, nil
		}
		st, _ := o.Type().Underlying().(*types.Struct)
		return types.NewPointer(o.Type()), st
	}
	loc := "(idat " + x.T + ")"
	fld := func(name, field string) Val {
		_, st := ptrTo(name)
		_, ft, path := findField(st, field)
		l := loc
		for _, p := range path {
			l = lfield(l, p)
		}
		return fv.load(c.st, l, ft)
	}
	type arm struct {
		typ  string
		term func() string
	}
	arms := []arm{
		{"Undefined", func() string { return "VUndef" }},
		{"Bool", func() string { return "(VBool " + fld("Bool", "value").T + ")" }},
		{"Int", func() string { return "(VInt " + fld("Int", "Value").T + ")" }},
		{"Float", func() string { return "(VFloat " + fld("Float", "Value").T + ")" }},
		{"Char", func() string { return "(VChar " + fld("Char", "Value").T + ")" }},
		{"String", func() string { return "(VStr " + fld("String", "Value").T + ")" }},
		{"Time", func() string { return "(VTime " + fld("Time", "Value").T + ")" }},
		{"Bytes", func() string { return "(VBytes " + fld("Bytes", "Value").T + ")" }},
		{"Array", func() string { return "(VArr " + fld("Array", "Value").T + " false)" }},
		{"ImmutableArray", func() string { return "(VArr " + fld("ImmutableArray", "Value").T + " true)" }},
		{"Map", func() string {
			m := fld("Map", "Value")
			return "(VMap " + m.T + " " + ite(eq(m.T, "LNil"), "#x0000000000000000", fv.mapLen(c.st, fv.mapSorts(m.Typ), m.T)) + " false)"
		}},
		{"ImmutableMap", func() string {
			m := fld("ImmutableMap", "Value")
			return "(VMap " + m.T + " " + ite(eq(m.T, "LNil"), "#x0000000000000000", fv.mapLen(c.st, fv.mapSorts(m.Typ), m.T)) + " true)"
		}},
		{"Error", func() string { return "(VErr " + fld("Error", "Value").T + ")" }},
	}
	t := "(VOther (itag " + x.T + ") " + loc + ")"
	known := c.knownTag(x)
	for i := len(arms) - 1; i >= 0; i-- {
		pt, _ := ptrTo(arms[i].typ)
		if pt == nil {
			return c.fail("view: type %s not found", arms[i].typ)
		}
		tag := fv.eng.tagOf(pt)
		if known == tag {
			return Val{K: KOpaque, Sort: "V", T: fv.def("view", "V", arms[i].term())}
		}
		if known > 0 {
			continue
		}
		t = ite(eq("(itag "+x.T+")", fmt.Sprint(tag)), arms[i].term(), t)
	}
	return Val{K: KOpaque, Sort: "V", T: fv.def("view", "V", t)}
}

// knownTag: the dynamic type tag of an interface term when it is fixed on
// every path to the current point (or syntactically), else 0.
func (c *cenv) knownTag(x Val) int {
	if strings.HasPrefix(x.T, "(mkiface ") {
		var tag int
		if _, err := fmt.Sscanf(x.T, "(mkiface %d ", &tag); err == nil {
			return tag
		}
	}
	if c.st != nil {
		if k := c.st.tags[x.T]; k > 0 {
			return k
		}
	}
	return 0
}

// fnValue: a captured function variable is a pointer to its cell; contracts
// may name either the cell or the value.
func (c *cenv) fnValue(v Val) Val {
	if v.Typ == nil {
		return v
	}
	if pt, ok := types.Unalias(v.Typ).Underlying().(*types.Pointer); ok {
		if _, isSig := types.Unalias(pt.Elem()).Underlying().(*types.Signature); isSig {
			return c.fv.load(c.st, v.T, pt.Elem())
		}
	}
	return v
}
