package main

import (
	"fmt"
	"go/types"
	"sort"
	"strings"
)

// ---------------------------------------------------------------------------
// SMT prelude: sorts shared by every verification condition.
// ---------------------------------------------------------------------------

const preludeSorts = `(set-logic ALL)
(declare-datatypes ((Path 0)) (((PNil) (PField (pfpar Path) (pfidx Int)) (PElem (pepar Path) (peidx (_ BitVec 64))))))
(declare-datatypes ((Loc 0)) (((mkloc (lroot Int) (lpath Path)))))
(define-fun LNil () Loc (mkloc (- 1) PNil))
(define-fun LRoot ((i Int)) Loc (mkloc i PNil))
(define-fun LField ((p Loc) (i Int)) Loc (mkloc (lroot p) (PField (lpath p) i)))
(define-fun LElem ((p Loc) (i (_ BitVec 64))) Loc (mkloc (lroot p) (PElem (lpath p) i)))
(define-fun isLField ((l Loc)) Bool ((_ is PField) (lpath l)))
(define-fun isLElem ((l Loc)) Bool ((_ is PElem) (lpath l)))
(define-fun fpar ((l Loc)) Loc (mkloc (lroot l) (pfpar (lpath l))))
(define-fun fidx ((l Loc)) Int (pfidx (lpath l)))
(define-fun epar ((l Loc)) Loc (mkloc (lroot l) (pepar (lpath l))))
(define-fun eidx ((l Loc)) (_ BitVec 64) (peidx (lpath l)))
(define-fun root ((l Loc)) Int (lroot l))
(declare-datatypes ((Slice 0)) (((mkslice (sarr Loc) (soff (_ BitVec 64)) (slen (_ BitVec 64)) (scap (_ BitVec 64))))))
(declare-datatypes ((Iface 0)) (((mkiface (itag Int) (idat Loc)))))
(declare-sort Str 0)
(declare-sort TimeT 0)
(declare-sort Opq 0)
(declare-fun ltype (Loc) Int)
(declare-fun s_len (Str) (_ BitVec 64))
(declare-fun s_at (Str (_ BitVec 64)) (_ BitVec 8))
(declare-fun s_cat (Str Str) Str)
(declare-fun s_sub (Str (_ BitVec 64) (_ BitVec 64)) Str)
(declare-fun s_lt (Str Str) Bool)
(declare-fun s_nrunes (Str) (_ BitVec 64))
(declare-fun s_runeat (Str (_ BitVec 64)) (_ BitVec 32))
(declare-const s_empty Str)
(assert (= (s_len s_empty) #x0000000000000000))
(define-fun nilslice () Slice (mkslice LNil #x0000000000000000 #x0000000000000000 #x0000000000000000))
(define-fun niliface () Iface (mkiface 0 LNil))
`

// Kinds of symbolic values.
const (
	KBV = iota
	KBool
	KFP
	KStr
	KLoc
	KSlice
	KIface
	KStruct
	KTuple
	KOpaque
	KUnit
)

// Val is a symbolic value: an SMT term (or a Go-side aggregate of terms)
// together with the Go type it stands for.
type Val struct {
	K    int
	T    string // SMT term for non-aggregate kinds
	W    int    // bit width (KBV), or 32/64 for KFP
	Sort string // SMT sort for KOpaque
	Fs   []Val  // KStruct / KTuple components
	Typ  types.Type
}

func (v Val) String() string {
	if v.K == KStruct || v.K == KTuple {
		var p []string
		for _, f := range v.Fs {
			p = append(p, f.String())
		}
		return "{" + strings.Join(p, " ") + "}"
	}
	return v.T
}

func bvSort(w int) string { return fmt.Sprintf("(_ BitVec %d)", w) }

func fpSort(w int) string {
	if w == 32 {
		return "(_ FloatingPoint 8 24)"
	}
	return "(_ FloatingPoint 11 53)"
}

// sortOf returns the SMT sort of a leaf value.
func (v Val) sortOf() string {
	switch v.K {
	case KBV:
		return bvSort(v.W)
	case KBool:
		return "Bool"
	case KFP:
		return fpSort(v.W)
	case KStr:
		return "Str"
	case KLoc:
		return "Loc"
	case KSlice:
		return "Slice"
	case KIface:
		return "Iface"
	case KOpaque:
		return v.Sort
	}
	panic("sortOf: aggregate value")
}

func bvConst(w int, x uint64) string {
	if w%4 == 0 {
		return fmt.Sprintf("#x%0*x", w/4, x&mask(w))
	}
	return fmt.Sprintf("(_ bv%d %d)", x&mask(w), w)
}

func mask(w int) uint64 {
	if w >= 64 {
		return ^uint64(0)
	}
	return (uint64(1) << uint(w)) - 1
}

func bv64(x int64) string { return bvConst(64, uint64(x)) }

func smtInt(x int) string {
	if x < 0 {
		return fmt.Sprintf("(- %d)", -x)
	}
	return fmt.Sprintf("%d", x)
}

func and(xs ...string) string {
	var ys []string
	for _, x := range xs {
		if x == "true" || x == "" {
			continue
		}
		if x == "false" {
			return "false"
		}
		ys = append(ys, x)
	}
	if len(ys) == 0 {
		return "true"
	}
	if len(ys) == 1 {
		return ys[0]
	}
	return "(and " + strings.Join(ys, " ") + ")"
}

func or(xs ...string) string {
	var ys []string
	for _, x := range xs {
		if x == "false" || x == "" {
			continue
		}
		if x == "true" {
			return "true"
		}
		ys = append(ys, x)
	}
	if len(ys) == 0 {
		return "false"
	}
	if len(ys) == 1 {
		return ys[0]
	}
	return "(or " + strings.Join(ys, " ") + ")"
}

func not(x string) string {
	if x == "true" {
		return "false"
	}
	if x == "false" {
		return "true"
	}
	if strings.HasPrefix(x, "(not ") && balanced(x[5:len(x)-1]) {
		return x[5 : len(x)-1]
	}
	return "(not " + x + ")"
}

func balanced(s string) bool {
	d := 0
	for _, c := range s {
		if c == '(' {
			d++
		} else if c == ')' {
			d--
			if d < 0 {
				return false
			}
		}
	}
	return d == 0
}

func implies(a, b string) string {
	if a == "true" {
		return b
	}
	if b == "true" || a == "false" {
		return "true"
	}
	return "(=> " + a + " " + b + ")"
}

func ite(c, a, b string) string {
	if c == "true" {
		return a
	}
	if c == "false" {
		return b
	}
	if a == b {
		return a
	}
	return "(ite " + c + " " + a + " " + b + ")"
}

func eq(a, b string) string {
	if a == b {
		return "true"
	}
	return "(= " + a + " " + b + ")"
}

// ---------------------------------------------------------------------------
// Canonical type strings (aliases resolved) used as heap keys and tag keys.
// ---------------------------------------------------------------------------

func canonType(t types.Type) string {
	t = types.Unalias(t)
	switch t := t.(type) {
	case *types.Basic:
		switch t.Kind() {
		case types.UntypedBool:
			return "bool"
		case types.UntypedInt:
			return "int"
		case types.UntypedRune:
			return "int32"
		case types.UntypedFloat:
			return "float64"
		case types.UntypedString:
			return "string"
		}
		return t.Name()
	case *types.Named:
		obj := t.Obj()
		s := obj.Name()
		if obj.Pkg() != nil {
			s = obj.Pkg().Path() + "." + s
		}
		if ta := t.TypeArgs(); ta != nil && ta.Len() > 0 {
			var as []string
			for i := 0; i < ta.Len(); i++ {
				as = append(as, canonType(ta.At(i)))
			}
			s += "[" + strings.Join(as, ",") + "]"
		}
		return s
	case *types.Pointer:
		return "*" + canonType(t.Elem())
	case *types.Slice:
		return "[]" + canonType(t.Elem())
	case *types.Array:
		return fmt.Sprintf("[%d]%s", t.Len(), canonType(t.Elem()))
	case *types.Map:
		return "map[" + canonType(t.Key()) + "]" + canonType(t.Elem())
	case *types.Chan:
		return "chan " + canonType(t.Elem())
	case *types.Signature:
		var ps, rs []string
		for i := 0; i < t.Params().Len(); i++ {
			ps = append(ps, canonType(t.Params().At(i).Type()))
		}
		for i := 0; i < t.Results().Len(); i++ {
			rs = append(rs, canonType(t.Results().At(i).Type()))
		}
		v := ""
		if t.Variadic() {
			v = "..."
		}
		return "func(" + strings.Join(ps, ",") + v + ")(" + strings.Join(rs, ",") + ")"
	case *types.Struct:
		var fs []string
		for i := 0; i < t.NumFields(); i++ {
			fs = append(fs, t.Field(i).Name()+" "+canonType(t.Field(i).Type()))
		}
		return "struct{" + strings.Join(fs, ";") + "}"
	case *types.Interface:
		if t.NumMethods() == 0 {
			return "interface{}"
		}
		var ms []string
		for i := 0; i < t.NumMethods(); i++ {
			ms = append(ms, t.Method(i).Name())
		}
		sort.Strings(ms)
		return "interface{" + strings.Join(ms, ";") + "}"
	case *types.Tuple:
		var ps []string
		for i := 0; i < t.Len(); i++ {
			ps = append(ps, canonType(t.At(i).Type()))
		}
		return "(" + strings.Join(ps, ",") + ")"
	}
	return t.String()
}

// opaque named types: treated as abstract values of one SMT sort.
var opaqueTypes = map[string]string{
	"time.Time":     "TimeT",
	"time.Location": "Opq",
	"sync.Mutex":    "Opq",
	"sync.RWMutex":  "Opq",
	"sync.Pool":     "Opq",
}

func isOpaque(t types.Type) (string, bool) {
	if n, ok := types.Unalias(t).(*types.Named); ok {
		s, ok := opaqueTypes[canonType(n)]
		return s, ok
	}
	return "", false
}

// kindOf maps a Go type to the kind / width / sort of its symbolic value.
func kindOf(t types.Type) (k int, w int, srt string) {
	if s, ok := isOpaque(t); ok {
		return KOpaque, 0, s
	}
	switch u := types.Unalias(t).Underlying().(type) {
	case *types.Basic:
		switch u.Kind() {
		case types.Bool, types.UntypedBool:
			return KBool, 0, "Bool"
		case types.Int, types.Int64, types.Uint, types.Uint64, types.Uintptr, types.UntypedInt:
			return KBV, 64, bvSort(64)
		case types.Int32, types.Uint32, types.UntypedRune:
			return KBV, 32, bvSort(32)
		case types.Int16, types.Uint16:
			return KBV, 16, bvSort(16)
		case types.Int8, types.Uint8:
			return KBV, 8, bvSort(8)
		case types.Float64, types.UntypedFloat:
			return KFP, 64, fpSort(64)
		case types.Float32:
			return KFP, 32, fpSort(32)
		case types.String, types.UntypedString:
			return KStr, 0, "Str"
		case types.UnsafePointer, types.UntypedNil:
			return KLoc, 0, "Loc"
		}
		return KOpaque, 0, "Opq"
	case *types.Pointer, *types.Map, *types.Chan, *types.Signature:
		return KLoc, 0, "Loc"
	case *types.Slice:
		return KSlice, 0, "Slice"
	case *types.Interface:
		return KIface, 0, "Iface"
	case *types.Struct:
		return KStruct, 0, ""
	case *types.Tuple:
		return KTuple, 0, ""
	case *types.Array:
		return KStruct, 0, "" // arrays as values: component-wise (small arrays only)
	}
	return KOpaque, 0, "Opq"
}

func isSigned(t types.Type) bool {
	if b, ok := types.Unalias(t).Underlying().(*types.Basic); ok {
		return b.Info()&types.IsUnsigned == 0
	}
	return true
}

func sanitize(s string) string {
	var b strings.Builder
	for _, c := range s {
		if (c >= 'a' && c <= 'z') || (c >= 'A' && c <= 'Z') || (c >= '0' && c <= '9') {
			b.WriteRune(c)
		} else {
			b.WriteByte('_')
		}
	}
	return b.String()
}
