package main

import (
	"go/types"

	"golang.org/x/tools/go/ssa"
)

type closureRec struct {
	fn       *ssa.Function
	bindings []Val
}

// Maps are objects (Loc) with three per-map-type heaps:
//   Mdom:<T> : Loc -> (Array K Bool)   key present
//   Mval:<T> : Loc -> (Array K V)      value
//   Mlen:<T> : Loc -> BV64             number of entries

type mapSorts struct {
	key, ksort, vsort string
	kt, vt            types.Type
	ok                bool
}

func (fv *FnVC) mapSorts(t types.Type) mapSorts {
	mt := types.Unalias(t).Underlying().(*types.Map)
	kk, kw, ks := kindOf(mt.Key())
	vk, vw, vs := kindOf(mt.Elem())
	ms := mapSorts{key: canonType(mt), kt: mt.Key(), vt: mt.Elem(), ok: true}
	if kk == KStruct || kk == KTuple || vk == KStruct || vk == KTuple {
		ms.ok = false
		return ms
	}
	ms.ksort = Val{K: kk, W: kw, Sort: ks}.sortOf()
	ms.vsort = Val{K: vk, W: vw, Sort: vs}.sortOf()
	return ms
}

func (ms mapSorts) domSort() string { return "(Array " + ms.ksort + " Bool)" }
func (ms mapSorts) valSort() string { return "(Array " + ms.ksort + " " + ms.vsort + ")" }

func (in *inst) mapInit(st *State, m string, t types.Type) {
	fv := in.fv
	ms := fv.mapSorts(t)
	if !ms.ok {
		fv.outOfSubset("map with aggregate key/value: " + ms.key)
		return
	}
	fv.storeRaw(st, "Mdom:"+ms.key, ms.domSort(), m, "((as const "+ms.domSort()+") false)")
	fv.storeRaw(st, "Mlen:"+ms.key, bvSort(64), m, "#x0000000000000000")
}

func (fv *FnVC) mapDom(st *State, ms mapSorts, m string) string {
	return fv.def("dom", ms.domSort(), fv.loadRaw(fv.heapOf(st, "Mdom:"+ms.key, ms.domSort()), m))
}
func (fv *FnVC) mapVals(st *State, ms mapSorts, m string) string {
	return fv.def("mv", ms.valSort(), fv.loadRaw(fv.heapOf(st, "Mval:"+ms.key, ms.valSort()), m))
}
func (fv *FnVC) mapLen(st *State, ms mapSorts, m string) string {
	l := fv.def("mlen", bvSort(64), fv.loadRaw(fv.heapOf(st, "Mlen:"+ms.key, bvSort(64)), m))
	if fv.boundDepth == 0 {
		fv.assume("true", and("(bvsle #x0000000000000000 "+l+")", "(bvslt "+l+" #x0000400000000000)"))
	}
	return l
}

// mapGet returns (value-or-zero, present) of m[k]; a nil map reads as empty.
func (fv *FnVC) mapGet(st *State, t types.Type, m, k string) (Val, string) {
	ms := fv.mapSorts(t)
	if !ms.ok {
		fv.outOfSubset("map with aggregate key/value: " + ms.key)
		return fv.unknown(st, ms.vt, "mv"), "false"
	}
	if fv.boundDepth == 0 && !fv.hasSkolem(k) {
		// every key the code looks up is an instantiation point for assumed "forall k T" clauses
		fv.instantiateLazies(k, ms.ksort)
	}
	present := fv.def("has", "Bool", and(not(eq(m, "LNil")), "(select "+fv.mapDom(st, ms, m)+" "+k+")"))
	z := fv.zeroVal(ms.vt)
	v := z
	v.T = fv.def("mget", ms.vsort, ite(present, "(select "+fv.mapVals(st, ms, m)+" "+k+")", z.T))
	fv.assumeWF(st, v)
	if v.K == KIface && fv.boundDepth == 0 && canonType(ms.vt) == modPath+".Object" {
		// input assumption (entry state only): values held in map[string]Object are non-nil Objects
		hi := fv.heapInfoFor("Mval:"+ms.key, ms.valSort())
		hd := fv.heapInfoFor("Mdom:"+ms.key, ms.domSort())
		fv.assume("true", implies("(select (select "+hd.name+"_0 "+m+") "+k+")", not(eq("(itag (select (select "+hi.name+"_0 "+m+") "+k+"))", "0"))))
		fv.note("assumed on the entry state: values of map[string]Object containers are non-nil Objects")
	}
	return v, present
}

func (fv *FnVC) mapSet(st *State, t types.Type, m, k string, v Val) {
	ms := fv.mapSorts(t)
	if !ms.ok {
		fv.outOfSubset("map with aggregate key/value: " + ms.key)
		return
	}
	dom := fv.mapDom(st, ms, m)
	vals := fv.mapVals(st, ms, m)
	ln := fv.mapLen(st, ms, m)
	had := "(select " + dom + " " + k + ")"
	fv.storeRaw(st, "Mlen:"+ms.key, bvSort(64), m, ite(had, ln, "(bvadd "+ln+" #x0000000000000001)"))
	fv.storeRaw(st, "Mdom:"+ms.key, ms.domSort(), m, "(store "+dom+" "+k+" true)")
	fv.storeRaw(st, "Mval:"+ms.key, ms.valSort(), m, "(store "+vals+" "+k+" "+v.T+")")
}

func (fv *FnVC) mapDelete(st *State, t types.Type, m, k string) {
	ms := fv.mapSorts(t)
	if !ms.ok {
		fv.outOfSubset("map with aggregate key/value: " + ms.key)
		return
	}
	dom := fv.mapDom(st, ms, m)
	ln := fv.mapLen(st, ms, m)
	had := "(select " + dom + " " + k + ")"
	// delete on a nil map is a no-op: writes at LNil are harmless because nil maps read as empty
	fv.storeRaw(st, "Mlen:"+ms.key, bvSort(64), m, ite(had, "(bvsub "+ln+" #x0000000000000001)", ln))
	fv.storeRaw(st, "Mdom:"+ms.key, ms.domSort(), m, "(store "+dom+" "+k+" false)")
}

func (in *inst) mapLookup(n *vnode, st *State, x *ssa.Lookup) {
	fv := in.fv
	m := in.lookup(n, x.X)
	k := in.lookup(n, x.Index)
	if _, isMap := types.Unalias(x.X.Type()).Underlying().(*types.Map); !isMap {
		// string index s[i] via Lookup
		idx := in.toBV64(k, x.Index.Type())
		in.safety(n, st, "index", and("(bvsle #x0000000000000000 "+idx+")", "(bvslt "+idx+" (s_len "+m.T+"))"), x.Pos())
		in.setVal(n, x, Val{K: KBV, W: 8, T: fv.def("ch", bvSort(8), "(s_at "+m.T+" "+idx+")"), Typ: x.Type()})
		return
	}
	v, has := fv.mapGet(st, x.X.Type(), m.T, k.T)
	if x.CommaOk {
		in.setVal(n, x, Val{K: KTuple, Fs: []Val{v, {K: KBool, T: has, Typ: types.Typ[types.Bool]}}, Typ: x.Type()})
	} else {
		in.setVal(n, x, v)
	}
}

func (in *inst) mapUpdate(n *vnode, st *State, x *ssa.MapUpdate) {
	m := in.lookup(n, x.Map)
	k := in.lookup(n, x.Key)
	v := in.lookup(n, x.Value)
	in.safety(n, st, "nilmap", not(eq(m.T, "LNil")), x.Pos())
	in.fv.mapSet(st, x.Map.Type(), m.T, k.T, v)
}

// range over map / string: the iteration order is abstracted; each Next
// yields an arbitrary present key (map) or an arbitrary valid index (string).
type rangeRec struct {
	x   Val
	typ types.Type
}

func (in *inst) rangeInit(n *vnode, st *State, x *ssa.Range) {
	v := in.lookup(n, x.X)
	in.fv.ranges[x] = &rangeRec{x: v, typ: x.X.Type()}
	in.setVal(n, x, Val{K: KLoc, T: "LNil", Typ: x.Type()})
}

func (in *inst) rangeNext(n *vnode, st *State, x *ssa.Next) {
	fv := in.fv
	rr := fv.ranges[x.Iter.(*ssa.Range)]
	if rr == nil {
		fv.outOfSubset("next without range")
		return
	}
	ok := fv.decl("more", "Bool")
	tt := x.Type().(*types.Tuple)
	if x.IsString {
		k := fv.decl("ri", bvSort(64))
		r := fv.decl("rr", bvSort(32))
		fv.assume(ok, and("(bvsle #x0000000000000000 "+k+")", "(bvslt "+k+" (s_len "+rr.x.T+"))"))
		fv.note("range over string: iteration order/values abstracted")
		in.setVal(n, x, Val{K: KTuple, Typ: tt, Fs: []Val{{K: KBool, T: ok, Typ: types.Typ[types.Bool]},
			{K: KBV, W: 64, T: k, Typ: tt.At(1).Type()}, {K: KBV, W: 32, T: r, Typ: tt.At(2).Type()}}})
		return
	}
	ms := fv.mapSorts(rr.typ)
	if !ms.ok {
		fv.outOfSubset("range over map with aggregate key/value")
		return
	}
	fv.note("range over map: each step yields an arbitrary present key")
	kk, kw, ks := kindOf(ms.kt)
	k := Val{K: kk, W: kw, Sort: ks, Typ: ms.kt}
	k.T = fv.decl("rk", ms.ksort)
	v, has := fv.mapGet(st, rr.typ, rr.x.T, k.T)
	fv.assume(ok, has)
	fv.assume(not(ok), "true")
	fv.assumeWF(st, k)
	in.setVal(n, x, Val{K: KTuple, Typ: tt, Fs: []Val{{K: KBool, T: ok, Typ: types.Typ[types.Bool]}, k, v}})
}
