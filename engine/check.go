package main

import (
	"encoding/json"
	"flag"
	"fmt"
	"os"
	"path/filepath"
	"sort"
	"strconv"
	"strings"
	"time"

	"golang.org/x/tools/go/ssa"
)

// KnownFinding is one entry of /verif/known_findings.json.
type KnownFinding struct {
	Property   string `json:"property"`
	Obligation string `json:"obligation"` // exact id, or prefix ending in '*'
	Status     string `json:"status"`     // known | fixed
	Witness    string `json:"witness,omitempty"`
	Commit     string `json:"commit,omitempty"`
	What       string `json:"what"`
}

func loadKnown(path string) []*KnownFinding {
	b, err := os.ReadFile(path)
	if err != nil {
		return nil
	}
	var ks []*KnownFinding
	if err := json.Unmarshal(b, &ks); err != nil {
		fmt.Fprintln(os.Stderr, "known_findings.json:", err)
		os.Exit(2)
	}
	return ks
}

func (k *KnownFinding) matches(prop, id string) bool {
	if k.Status != "known" || k.Property != prop {
		return false
	}
	if strings.HasSuffix(k.Obligation, "*") {
		return strings.HasPrefix(id, strings.TrimSuffix(k.Obligation, "*"))
	}
	return k.Obligation == id
}

func hasProp(ps []string, p string) bool {
	for _, x := range ps {
		if x == p || x == p+"!" {
			return true
		}
	}
	return false
}

// thoroughOnly: the clause is tagged "<prop>!" — proved in the thorough tier
// only (it is still assumed at call sites in the quick tier).
func thoroughOnly(ps []string, p string) bool {
	for _, x := range ps {
		if x == p {
			return false
		}
	}
	for _, x := range ps {
		if x == p+"!" {
			return true
		}
	}
	return false
}

// contractServes: does any clause of ct serve property p?
func contractServes(ct *Contract, p string) bool {
	if hasProp(ct.Props, p) || hasProp(ct.SiteProps, p) {
		return true
	}
	for _, c := range ct.Requires {
		if hasProp(c.Props, p) {
			return true
		}
	}
	for _, c := range ct.Ensures {
		if hasProp(c.Props, p) {
			return true
		}
	}
	for _, c := range ct.Maintain {
		if hasProp(c.Props, p) {
			return true
		}
	}
	for _, l := range ct.Loops {
		for _, c := range append(append([]*Clause(nil), l.Invariants...), l.Steps...) {
			if hasProp(c.Props, p) {
				return true
			}
		}
	}
	return false
}

type fnReport struct {
	Func        string   `json:"function"`
	Clauses     int      `json:"clauses"`
	Obligations int      `json:"obligations"`
	Discharged  int      `json:"discharged"`
	Notes       []string `json:"abstractions,omitempty"`
}

func cmdCheck(args []string) int {
	fs := flag.NewFlagSet("check", flag.ExitOnError)
	prop := fs.String("property", "", "property id")
	tier := fs.String("tier", "quick", "quick|thorough")
	repo := fs.String("repo", "/repo", "repository")
	verif := fs.String("verif", "/verif", "verif dir")
	timeout := fs.Int("timeout", 0, "solver timeout in seconds (default 10 quick / 40 thorough)")
	fs.Parse(args)
	if t := os.Getenv("VERIF_TIER"); t != "" && !isFlagSet(fs, "tier") {
		*tier = t
	}
	seed := 0
	if s := os.Getenv("VERIF_SEED"); s != "" {
		seed, _ = strconv.Atoi(s)
	}
	if *timeout == 0 {
		*timeout = 200
		if *tier == "thorough" {
			*timeout = 400
		}
	}
	t0 := time.Now()
	e, err := loadEngine(*repo)
	if err != nil {
		fmt.Fprintln(os.Stderr, "tgvc: cannot load /repo with tag verif:", err)
		return 2
	}
	if err := e.loadSpecs(filepath.Join(*verif, "spec")); err != nil {
		fmt.Fprintln(os.Stderr, "tgvc:", err)
		return 2
	}
	known := loadKnown(filepath.Join(*verif, "known_findings.json"))
	e.known = known
	work := filepath.Join(*verif, "work", *prop)
	os.RemoveAll(work)
	os.MkdirAll(work, 0o755)
	replayDir := filepath.Join(*verif, "replays", *prop)
	os.RemoveAll(replayDir)

	var obls []*Obligation
	var reports []*fnReport
	var fvs []*FnVC
	broken := []string{}
	violations := []*Obligation{}
	noteSet := map[string]bool{}
	usedExt := map[string]bool{}
	usedCt := map[string]bool{}
	var assumedCts []string
	deferred := map[string]int{}
	nsupport, nsafetySkipped, ndeferred := 0, 0, 0
	var unverified []string
	for _, ct := range e.allCts {
		f := e.ctFunc[ct]
		if f == nil {
			continue
		}
		serves := contractServes(ct, *prop)
		for _, im := range e.refinedBy(f) {
			if contractServes(im.ct, *prop) {
				serves = true
			}
		}
		if !serves {
			continue
		}
		if ct.hasMode("unverified") {
			unverified = append(unverified, funcKey(f)+": "+ct.Modes["unverified"])
			continue
		}
		if ct.hasMode("assumed") {
			assumedCts = append(assumedCts, funcKey(f)+" ("+ct.Modes["assumed"]+")")
			if !ct.hasMode("loops-checked") {
				continue
			}
		}
		fv := e.verifyFunc(f, ct)
		fvs = append(fvs, fv)
		for _, s := range fv.specErrs {
			broken = append(broken, "contract error: "+s)
		}
		rep := &fnReport{Func: funcKey(f), Clauses: len(ct.Requires) + len(ct.Ensures)}
		for _, l := range ct.Loops {
			rep.Clauses += len(l.Invariants) + len(l.Steps)
		}
		for n := range fv.notes {
			rep.Notes = append(rep.Notes, n)
			noteSet[n] = true
		}
		sort.Strings(rep.Notes)
		for k := range fv.usedExternal {
			usedExt[k] = true
		}
		for k := range fv.usedContracts {
			usedCt[k] = true
		}
		if fv.unsupported {
			// the function left the verifier's subset: its obligations cannot be generated
			o := &Obligation{ID: funcKey(f) + "#subset", Kind: "subset", Props: ct.Props, Func: funcKey(f), fv: fv,
				Clause: "function is inside the verifier's Go subset", Result: &SolveResult{Verdict: "unknown", Output: strings.Join(fv.oos, "; ")}}
			obls = append(obls, o)
			reports = append(reports, rep)
			continue
		}
		for _, o := range fv.obls {
			if ct.hasMode("assumed") && o.Kind != "step" && o.Kind != "inv-init" && o.Kind != "inv-step" {
				// mode assumed + loops-checked: the function's own contract stays an assumption; only the
				// clauses attached to its loops are proved (under the other obligations as path assumptions)
				continue
			}
			// supporting obligations: clauses without a property tag of their own (loop invariants, callee
			// preconditions, frames, untagged postconditions) are what the tagged clauses of this function and
			// its callers rest on, so they are checked under every property the function serves. Untagged
			// safety obligations are checked only under the properties named by the function's props line;
			// elsewhere "no panic on this path" is a path assumption (partial correctness), reported as such.
			supporting := o.Inherited && o.Kind != "safety" && o.Kind != "cover"
			if supporting && !hasProp(o.Props, *prop) {
				nsupport++
			}
			if o.Inherited && o.Kind == "safety" && !hasProp(o.Props, *prop) {
				nsafetySkipped++
			}
			if thoroughOnly(o.Props, *prop) && *tier != "thorough" {
				ndeferred++
			}
			if o.Kind == "cover" || hasProp(o.Props, *prop) || supporting {
				if *tier != "thorough" && o.Kind != "cover" && thoroughOnly(o.Props, *prop) {
					deferred[o.Func+"#"+strings.SplitN(strings.SplitN(o.ID, "#", 2)[1], "@", 2)[0]]++
					continue
				}
				obls = append(obls, o)
				rep.Obligations++
			}
		}
		reports = append(reports, rep)
	}
	// lemmas over the spec functions
	lfiles, _ := filepath.Glob(filepath.Join(*verif, "spec", "lemmas", *prop+"_*.smt2"))
	sort.Strings(lfiles)
	for _, lf := range lfiles {
		b, err := os.ReadFile(lf)
		if err != nil {
			continue
		}
		name := strings.TrimSuffix(filepath.Base(lf), ".smt2")
		obls = append(obls, &Obligation{ID: "lemma:" + name, Kind: "lemma", Props: []string{*prop}, Func: "spec", Clause: firstComment(string(b)),
			raw: preludeSorts + e.specText + string(b)})
	}
	// known findings with a witness: prove the clause on the complement
	// (handled at generation time through o.witness; see addComplement)
	var toSolve []*Obligation
	for _, o := range obls {
		if o.Result == nil {
			toSolve = append(toSolve, o)
		}
	}
	solveAll(toSolve, work, *timeout, *tier == "thorough", numWorkers())

	discharged, total, covers := 0, 0, 0
	bySolver := map[string]int{}
	solverSecs := map[string]float64{}
	var knownPrinted []string
	type sample struct {
		ID      string  `json:"obligation"`
		Kind    string  `json:"kind"`
		Clause  string  `json:"clause,omitempty"`
		Verdict string  `json:"verdict"`
		Solver  string  `json:"solver,omitempty"`
		Secs    float64 `json:"seconds"`
		Bytes   int     `json:"smt_bytes,omitempty"`
	}
	var samples []sample
	var slowest []sample
	repByFunc := map[string]*fnReport{}
	for _, r := range reports {
		repByFunc[r.Func] = r
	}
	for _, o := range obls {
		r := o.Result
		if o.Kind == "cover" {
			covers++
			if r.Verdict == "unsat" {
				broken = append(broken, "vacuous precondition: "+o.ID+" (requires is unsatisfiable)")
			}
			continue
		}
		total++
		sm := sample{ID: o.ID, Kind: o.Kind, Clause: o.Clause, Verdict: r.Verdict, Solver: r.Solver, Secs: r.Total}
		if fi, err := os.Stat(r.File); err == nil {
			sm.Bytes = int(fi.Size())
		}
		if len(samples) < 6 || (r.Verdict != "unsat" && len(samples) < 20) {
			samples = append(samples, sm)
		}
		slowest = append(slowest, sm)
		if r.Verdict == "unsat" {
			discharged++
			bySolver[r.Solver]++
			solverSecs[r.Solver] += r.Seconds
			if rp := repByFunc[o.Func]; rp != nil {
				rp.Discharged++
			}
			continue
		}
		// not discharged
		var kf *KnownFinding
		for _, k := range known {
			if k.matches(*prop, o.ID) {
				kf = k
			}
		}
		if kf != nil {
			line := fmt.Sprintf("KNOWN-FINDING: property=%s %s %s", *prop, o.ID, kf.What)
			fmt.Println(line)
			knownPrinted = append(knownPrinted, line)
			total-- // a listed finding is neither discharged nor counted as an open obligation
			if rp := repByFunc[o.Func]; rp != nil {
				rp.Obligations--
			}
			continue
		}
		violations = append(violations, o)
	}
	sort.Slice(slowest, func(i, j int) bool { return slowest[i].Secs > slowest[j].Secs })
	if len(slowest) > 5 {
		slowest = slowest[:5]
	}
	for _, o := range violations {
		os.MkdirAll(replayDir, 0o755)
		path := filepath.Join(replayDir, sanitizeFile(o.ID)+".json")
		rp := buildReplay(e, o, *prop, *tier)
		b, _ := json.MarshalIndent(rp, "", " ")
		os.WriteFile(path, b, 0o644)
		suffix := ""
		if !rp.Replayed {
			suffix = " no-failing-input-found"
		}
		fmt.Printf("VIOLATION property=%s replay=%s obligation=%s%s\n", *prop, path, o.ID, suffix)
	}
	for _, b := range broken {
		fmt.Println("BROKEN:", b)
	}
	if total == 0 && len(broken) == 0 {
		broken = append(broken, "no obligations generated for "+*prop)
		fmt.Println("BROKEN: no obligations generated for", *prop)
	}

	// evidence
	var assumed []string
	for k := range usedExt {
		assumed = append(assumed, "assumed contract on external function "+k)
	}
	for k := range usedCt {
		if strings.Contains(k, ".Object.") || strings.Contains(k, ".Iterator.") {
			assumed = append(assumed, "interface contract "+k+" assumed for implementations outside /repo (implementations in /repo are proved against their own contracts)")
		}
	}
	for k := range usedCt {
		for _, c2 := range e.allCts {
			if f2 := e.ctFunc[c2]; f2 != nil && funcKey(f2) == k && c2.hasMode("assumed") {
				assumed = append(assumed, "assumed (unverified) contract on "+k+": "+c2.Modes["assumed"])
			}
		}
	}
	for k, n := range deferred {
		assumed = append(assumed, fmt.Sprintf("clause %s: %d obligations are proved in the thorough tier only (assumed at call sites in this quick run)", k, n))
	}
	for _, a := range unverified {
		assumed = append(assumed, "NOT VERIFIED (sites inside are not covered by this check): "+a)
	}
	for _, a := range assumedCts {
		assumed = append(assumed, "function with assumed contract, body not verified: "+a)
	}
	for n := range noteSet {
		assumed = append(assumed, "abstraction: "+n)
	}
	sort.Strings(assumed)
	assumed = append(assumed,
		"integers are 64/32/16/8-bit vectors with Go semantics (no mathematical-integer abstraction); float64 is SMT FloatingPoint 11 53",
		"strings are an uninterpreted sort with length, byte-at, concatenation length, substring length and a strict total order; no UTF-8 semantics",
		"slice/string/map lengths are below 2^46; no typed-nil pointers inside Object interfaces; receivers are non-nil",
		"Go map iteration order, goroutines, channels, select, recover, unsafe and reflection are outside the verified subset",
		fmt.Sprintf("%d run-time panic sites (nil, index, slice, type assertion, division, explicit panic) in the functions under contract are not obligations of this property: on those paths the clauses are proved under the assumption that the operation does not panic (partial correctness)", nsafetySkipped),
		fmt.Sprintf("%d obligations of clauses tagged for the thorough tier only are assumptions of the quick tier", ndeferred),
		"queries refuted in an earlier run with byte-identical text are not solved again (solver 'memo:<solver>' in by_solver); the memo is not committed",
		"trusted: go/packages + go/ssa (x/tools v0.29.0), the tgvc encoder, z3 5.1.0 / z3 4.8.12 / cvc5 1.0.3, the Go toolchain")
	var fnames []string
	for _, r := range reports {
		fnames = append(fnames, r.Func)
	}
	ev := map[string]interface{}{
		"property_id": *prop,
		"tier":        *tier,
		"seed":        seed,
		"level":       "proof",
		"coverage": map[string]interface{}{
			"obligations":              total,
			"discharged":               discharged,
			"checker_cmd":              fmt.Sprintf("/verif/bin/tgvc check --property %s --tier %s", *prop, *tier),
			"trusted_base":             []string{"go/ssa (x/tools v0.29.0)", "tgvc VC generator (/verif/engine)", "z3 5.1.0 (z3-new)", "z3 4.8.12", "cvc5 1.0.3", "spec functions in /verif/spec/*.smt2"},
			"functions_under_contract": reports,
			"by_solver":                bySolver,
			"solver_seconds":           solverSecs,
			"slowest":                  slowest,
			"samples":                  samples,
			"cover_checks":             covers,
			"supporting_obligations":   nsupport,
			"path_assumptions_no_panic": nsafetySkipped,
			"deferred_to_thorough_tier": ndeferred,
			"known_findings_printed":   knownPrinted,
			"solver_timeout_s":         *timeout,
			"cross_checked_by_other_solvers_20s": *tier == "thorough",
		},
		"assumptions": assumed,
		"wall_s":      time.Since(t0).Seconds(),
		"violations":  len(violations),
	}
	os.MkdirAll(filepath.Join(*verif, "evidence"), 0o755)
	b, _ := json.MarshalIndent(ev, "", " ")
	os.WriteFile(filepath.Join(*verif, "evidence", *prop+".json"), b, 0o644)
	fmt.Printf("%s: %d obligations, %d discharged, %d violations, %d known findings, %d functions, %.1fs\n", *prop, total, discharged, len(violations), len(knownPrinted), len(reports), time.Since(t0).Seconds())
	if len(violations) > 0 {
		return 1
	}
	if len(broken) > 0 {
		return 2
	}
	return 0
}

func isFlagSet(fs *flag.FlagSet, name string) bool {
	set := false
	fs.Visit(func(f *flag.Flag) {
		if f.Name == name {
			set = true
		}
	})
	return set
}

// Replay is the content of a replay file.
type Replay struct {
	Property   string `json:"property"`
	Obligation string `json:"obligation"`
	Kind       string `json:"kind"`
	Function   string `json:"function"`
	Position   string `json:"position,omitempty"`
	Clause     string `json:"clause_text,omitempty"`
	Tier       string `json:"tier"`
	Solver     string `json:"solver,omitempty"`
	Verdict    string `json:"verdict"`
	SMTFile    string `json:"smt_file,omitempty"`
	Output     string `json:"solver_output,omitempty"`
	Model      string `json:"model,omitempty"`
	Witness    interface{} `json:"witness"`
	Harness    string `json:"harness_go,omitempty"`
	Observed   string `json:"observed,omitempty"`
	Replayed   bool   `json:"replayed"`
	Note       string `json:"note,omitempty"`
}

var replayBudget = 8

func buildReplay(e *Engine, o *Obligation, prop, tier string) *Replay {
	r := o.Result
	rp := &Replay{Property: prop, Obligation: o.ID, Kind: o.Kind, Function: o.Func, Position: o.Pos, Clause: o.Clause, Tier: tier,
		Solver: r.Solver, Verdict: r.Verdict, SMTFile: r.File, Output: r.Output, Model: trunc(r.Model, 20000)}
	if r.Verdict == "sat" {
		if replayBudget > 0 {
			replayBudget--
			tryReplay(e, o, rp)
		} else {
			rp.Note = "counterexample model attached; replay budget of this run used up (the first 8 refuted obligations are replayed)"
		}
	} else {
		rp.Note = "no model: the obligation is not discharged (" + r.Verdict + "); it is discharged on the unchanged tree"
	}
	return rp
}

var _ = ssa.GlobalDebug

func firstComment(s string) string {
	for _, l := range strings.Split(s, "\n") {
		if strings.HasPrefix(l, ";") {
			return strings.TrimSpace(strings.TrimPrefix(l, ";"))
		}
	}
	return ""
}
