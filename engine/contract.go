package main

import (
	"bufio"
	"fmt"
	"os"
	"path/filepath"
	"regexp"
	"strconv"
	"strings"
)

// Clause is one named contract clause.
type Clause struct {
	Assumed bool // `assumes`: precondition taken as an input assumption (not an obligation at call sites)
	Kind  string // requires | ensures | invariant | step
	Name  string
	Expr  string
	Props []string
	File  string
	Line  int
}

// LoopSpec holds the per-loop part of a contract.
type LoopSpec struct {
	Invariants []*Clause
	Steps      []*Clause
	Unroll     int // 0 = cut with invariant
	Assigns    []string
	AssignsSet bool
	Lets       [][2]string
}

// Contract is the parsed //@ block of one function (or interface method).
type Contract struct {
	Ref        string // function reference as written
	PkgPath    string // package of the contract file
	File       string
	Line       int
	Props      []string
	Modes      map[string]string
	Requires   []*Clause
	Ensures    []*Clause
	Assigns    []string
	AssignsSet bool // an assigns clause was given ("nothing" = set with empty list)
	AssignsAny bool // assigns *
	Except     []string // with assigns *: location sets that bound the change of their heaps ("assigns * except ...": heaps named there change only inside the given sets)
	Loops      map[int]*LoopSpec
	IsIface    bool
	Lets       [][2]string // let name = expr (evaluated at entry)
	Maintain   []*Clause   // two-state facts (relative to entry) re-proved after every call and then assumed
	Pure       bool
	Private    string // expression: object whose memory unknown callees cannot reach
	SiteProps  []string // properties of field invariants whose store sites this function contains
	Synth      bool // synthesised: exists only to be checked against an interface contract
}

func (c *Contract) loop(n int) *LoopSpec {
	if c.Loops == nil {
		c.Loops = map[int]*LoopSpec{}
	}
	if c.Loops[n] == nil {
		c.Loops[n] = &LoopSpec{}
	}
	return c.Loops[n]
}

func (c *Contract) hasMode(m string) bool {
	_, ok := c.Modes[m]
	return ok
}

var clauseKeywords = map[string]bool{
	"func": true, "props": true, "mode": true, "requires": true, "ensures": true,
	"assigns": true, "decreases": true, "loop": true, "let": true, "global": true,
	"lemma": true, "pure": true, "fieldinv": true, "private": true, "table": true, "immutable": true, "maintain": true, "nilable": true, "define": true, "assumes": true,
}

var nameRe = regexp.MustCompile(`^([A-Za-z_][A-Za-z0-9_\[\]\.\-]*)(\{[A-Z0-9!, ]+\})?:\s*(.*)$`)

// GlobalFact is a `global` declaration in a contract file: sentinel globals.
type GlobalFact struct {
	PkgPath string
	Name    string
	File    string
	Line    int
}

// FieldInv is a data-structure invariant attached to one struct field: it is
// an obligation at every store to the field (site inventory) and an
// assumption at every load.
type FieldInv struct {
	PkgPath string
	Type    string
	Field   string
	Clause  *Clause
	Immutable bool // written only while the object is being constructed (fresh)
	Index   int
	TypeID  int
	LeafKey string
}

// ContractFile is the result of parsing one verif_contracts.go file.
type ContractFile struct {
	Contracts []*Contract
	Globals   []*GlobalFact
	FieldInvs []*FieldInv
	Tables    []*GlobalFact
	Nilables  []*GlobalFact // `nilable T.f`: container fields whose Object elements may be Go nil
}

// parseContractFile reads the //@ blocks of one file.
func parseContractFile(path, pkgPath string) (*ContractFile, error) {
	f, err := os.Open(path)
	if err != nil {
		return nil, err
	}
	defer f.Close()
	out := &ContractFile{}
	var cur *Contract
	var last *string // expression being continued
	var macros []*macro
	sc := bufio.NewScanner(f)
	sc.Buffer(make([]byte, 1<<20), 1<<20)
	ln := 0
	base := filepath.Base(filepath.Dir(path)) + "/" + filepath.Base(path)
	for sc.Scan() {
		ln++
		raw := sc.Text()
		t := strings.TrimSpace(raw)
		if !strings.HasPrefix(t, "//@") {
			last = nil
			if t == "" {
				continue
			}
			continue
		}
		body := strings.TrimSpace(t[3:])
		if body == "" {
			last = nil
			continue
		}
		if i := strings.Index(body, " //"); i >= 0 { // trailing comment
			body = strings.TrimSpace(body[:i])
		}
		fields := strings.Fields(body)
		kw := fields[0]
		if !clauseKeywords[kw] {
			if last == nil {
				return nil, fmt.Errorf("%s:%d: continuation line without clause", path, ln)
			}
			*last += " " + body
			continue
		}
		rest := strings.TrimSpace(body[len(kw):])
		last = nil
		switch kw {
		case "func":
			cur = &Contract{PkgPath: pkgPath, File: base, Line: ln, Modes: map[string]string{}}
			if strings.HasPrefix(rest, "interface ") {
				cur.IsIface = true
				rest = strings.TrimSpace(rest[len("interface "):])
			}
			cur.Ref = rest
			out.Contracts = append(out.Contracts, cur)
		case "global":
			out.Globals = append(out.Globals, &GlobalFact{PkgPath: pkgPath, Name: rest, File: base, Line: ln})
		case "table":
			out.Tables = append(out.Tables, &GlobalFact{PkgPath: pkgPath, Name: rest, File: base, Line: ln})
		case "define":
			// define name(p1, p2): expr   -- a named predicate, expanded textually in this file's clauses
			i, j := strings.Index(rest, "("), strings.Index(rest, "):")
			if i <= 0 || j < i {
				return nil, fmt.Errorf("%s:%d: bad define", path, ln)
			}
			m := &macro{name: strings.TrimSpace(rest[:i])}
			for _, p := range strings.Split(rest[i+1:j], ",") {
				if p = strings.TrimSpace(p); p != "" {
					m.params = append(m.params, p)
				}
			}
			m.body = strings.TrimSpace(rest[j+2:])
			macros = append(macros, m)
			last = &m.body
		case "nilable":
			out.Nilables = append(out.Nilables, &GlobalFact{PkgPath: pkgPath, Name: strings.TrimSpace(rest), File: base, Line: ln})
		case "immutable":
			fs := strings.Fields(rest)
			tf := strings.SplitN(fs[0], ".", 2)
			if len(tf) != 2 {
				return nil, fmt.Errorf("%s:%d: bad immutable", path, ln)
			}
			cl := &Clause{Kind: "fieldinv", Name: "immutable", Expr: "true", File: base, Line: ln}
			if len(fs) > 1 {
				for _, p := range strings.Split(strings.Trim(fs[1], "{}"), ",") {
					cl.Props = append(cl.Props, strings.TrimSpace(p))
				}
			}
			out.FieldInvs = append(out.FieldInvs, &FieldInv{PkgPath: pkgPath, Type: tf[0], Field: tf[1], Clause: cl, Immutable: true})
		case "fieldinv":
			fs := strings.SplitN(rest, " ", 2)
			tf := strings.SplitN(fs[0], ".", 2)
			if len(fs) != 2 || len(tf) != 2 {
				return nil, fmt.Errorf("%s:%d: bad fieldinv", path, ln)
			}
			cl := mkClause("fieldinv", fs[1], base, ln, len(out.FieldInvs))
			out.FieldInvs = append(out.FieldInvs, &FieldInv{PkgPath: pkgPath, Type: tf[0], Field: tf[1], Clause: cl})
			last = &cl.Expr
		default:
			if cur == nil {
				return nil, fmt.Errorf("%s:%d: clause outside func block", path, ln)
			}
			switch kw {
			case "props":
				cur.Props = append(cur.Props, strings.Fields(rest)...)
			case "pure":
				cur.Pure = true
			case "private":
				cur.Private = rest
			case "mode":
				fs := strings.SplitN(rest, " ", 2)
				v := ""
				if len(fs) > 1 {
					v = fs[1]
				}
				cur.Modes[fs[0]] = v
			case "let":
				p := strings.SplitN(rest, "=", 2)
				if len(p) != 2 {
					return nil, fmt.Errorf("%s:%d: bad let", path, ln)
				}
				cur.Lets = append(cur.Lets, [2]string{strings.TrimSpace(p[0]), strings.TrimSpace(p[1])})
				last = &cur.Lets[len(cur.Lets)-1][1]
			case "maintain":
				cl := mkClause("maintain", rest, base, ln, len(cur.Maintain))
				cur.Maintain = append(cur.Maintain, cl)
				last = &cl.Expr
			case "requires", "ensures", "assumes":
				cl := mkClause(kw, rest, base, ln, len(cur.Requires)+len(cur.Ensures))
				if kw == "assumes" {
					// an input assumption: holds on entry by hypothesis, never checked at call sites
					cl.Assumed = true
					cur.Requires = append(cur.Requires, cl)
				} else if kw == "requires" {
					cur.Requires = append(cur.Requires, cl)
				} else {
					cur.Ensures = append(cur.Ensures, cl)
				}
				last = &cl.Expr
			case "assigns":
				cur.AssignsSet = true
				if rest == "nothing" {
				} else if rest == "*" || strings.HasPrefix(rest, "* except ") {
					cur.AssignsAny = true
					if strings.HasPrefix(rest, "* except ") {
						for _, p := range splitTop(strings.TrimPrefix(rest, "* except "), ',') {
							cur.Except = append(cur.Except, strings.TrimSpace(p))
						}
					}
				} else {
					for _, p := range splitTop(rest, ',') {
						cur.Assigns = append(cur.Assigns, strings.TrimSpace(p))
					}
				}
			case "decreases":
				// termination measures are recorded but not checked by this engine
			case "loop":
				fs := strings.Fields(rest)
				if len(fs) < 2 {
					return nil, fmt.Errorf("%s:%d: bad loop clause", path, ln)
				}
				n, err := strconv.Atoi(fs[0])
				if err != nil {
					return nil, fmt.Errorf("%s:%d: bad loop ordinal", path, ln)
				}
				ls := cur.loop(n)
				sub := fs[1]
				r2 := strings.TrimSpace(strings.TrimPrefix(strings.TrimSpace(rest[len(fs[0]):]), sub))
				switch sub {
				case "unroll":
					k, err := strconv.Atoi(r2)
					if err != nil {
						return nil, fmt.Errorf("%s:%d: bad unroll", path, ln)
					}
					ls.Unroll = k
				case "invariant":
					cl := mkClause("invariant", r2, base, ln, len(ls.Invariants))
					ls.Invariants = append(ls.Invariants, cl)
					last = &cl.Expr
				case "step":
					cl := mkClause("step", r2, base, ln, len(ls.Steps))
					ls.Steps = append(ls.Steps, cl)
					last = &cl.Expr
				case "assigns":
					ls.AssignsSet = true
					if r2 != "nothing" {
						for _, p := range splitTop(r2, ',') {
							ls.Assigns = append(ls.Assigns, strings.TrimSpace(p))
						}
					}
				case "let":
					pp := strings.SplitN(r2, "=", 2)
					if len(pp) != 2 {
						return nil, fmt.Errorf("%s:%d: bad loop let", path, ln)
					}
					ls.Lets = append(ls.Lets, [2]string{strings.TrimSpace(pp[0]), strings.TrimSpace(pp[1])})
					last = &ls.Lets[len(ls.Lets)-1][1]
				case "decreases":
				default:
					return nil, fmt.Errorf("%s:%d: unknown loop clause %q", path, ln, sub)
				}
			}
		}
	}
	if len(macros) > 0 {
		ex := func(p *string) { *p = expandMacros(*p, macros) }
		for _, m := range macros {
			ex(&m.body) // earlier definitions may be used by later ones
		}
		for _, c := range out.Contracts {
			for _, cl := range c.Requires {
				ex(&cl.Expr)
			}
			for _, cl := range c.Ensures {
				ex(&cl.Expr)
			}
			for _, cl := range c.Maintain {
				ex(&cl.Expr)
			}
			for i := range c.Lets {
				ex(&c.Lets[i][1])
			}
			for _, ls := range c.Loops {
				for _, cl := range ls.Invariants {
					ex(&cl.Expr)
				}
				for _, cl := range ls.Steps {
					ex(&cl.Expr)
				}
				for i := range ls.Lets {
					ex(&ls.Lets[i][1])
				}
			}
		}
	}
	return out, sc.Err()
}

type macro struct {
	name   string
	params []string
	body   string
}

// expandMacros replaces name(args) by the macro body with parameters substituted (textually, whole words).
func expandMacros(e string, ms []*macro) string {
	for _, m := range ms {
		for guard := 0; guard < 100; guard++ {
			re := regexp.MustCompile(`\b` + regexp.QuoteMeta(m.name) + `\(`)
			loc := re.FindStringIndex(e)
			if loc == nil {
				break
			}
			// balanced arguments
			depth, i := 1, loc[1]
			var args []string
			start := i
			for ; i < len(e) && depth > 0; i++ {
				switch e[i] {
				case '(', '[':
					depth++
				case ')', ']':
					depth--
					if depth == 0 {
						args = append(args, strings.TrimSpace(e[start:i]))
					}
				case ',':
					if depth == 1 {
						args = append(args, strings.TrimSpace(e[start:i]))
						start = i + 1
					}
				}
			}
			if depth != 0 || len(args) != len(m.params) {
				break
			}
			body := m.body
			for k, p := range m.params {
				body = regexp.MustCompile(`\b`+regexp.QuoteMeta(p)+`\b`).ReplaceAllLiteralString(body, "\x00"+fmt.Sprint(k)+"\x00")
			}
			for k := range m.params {
				body = strings.ReplaceAll(body, "\x00"+fmt.Sprint(k)+"\x00", "("+args[k]+")")
			}
			e = e[:loc[0]] + "(" + body + ")" + e[i:]
		}
	}
	return e
}

func mkClause(kind, rest, file string, line, ord int) *Clause {
	cl := &Clause{Kind: kind, File: file, Line: line}
	if m := nameRe.FindStringSubmatch(rest); m != nil && !strings.HasPrefix(m[3], "=") && !strings.HasPrefix(m[3], ":") {
		cl.Name = m[1]
		if m[2] != "" {
			for _, p := range strings.Split(strings.Trim(m[2], "{}"), ",") {
				cl.Props = append(cl.Props, strings.TrimSpace(p))
			}
		}
		cl.Expr = m[3]
	} else {
		cl.Name = fmt.Sprintf("%s%d", kind[:3], ord)
		cl.Expr = rest
	}
	return cl
}

// splitTop splits s at sep occurrences that are not nested in brackets.
func splitTop(s string, sep byte) []string {
	var out []string
	d := 0
	st := 0
	for i := 0; i < len(s); i++ {
		switch s[i] {
		case '(', '[', '{':
			d++
		case ')', ']', '}':
			d--
		default:
			if s[i] == sep && d == 0 {
				out = append(out, s[st:i])
				st = i + 1
			}
		}
	}
	out = append(out, s[st:])
	return out
}
