#!/bin/bash
# usage: confirm_seed.sh <seed dir with patch.diff + demo_test.go> <scratch worktree of /repo> <out dir under /verif/seeded>
# Confirms: suite passes with change; demo fails with change; demo passes without it.
set -u
export GOFLAGS=-mod=mod GOPROXY=off GOSUMDB=off GOTOOLCHAIN=local
sd=$1; wt=$2; out=$3
cd "$wt" || exit 2
git checkout -q -- . ; git clean -fdq
pat=$(grep -h "^func Test" "$sd"/demo_test.go | sed 's/func \(Test[A-Za-z0-9_]*\).*/\1/' | paste -sd'|')
git apply "$sd/patch.diff" || { echo "PATCH DOES NOT APPLY"; exit 1; }
go build ./... || { echo "DOES NOT COMPILE"; git checkout -q -- .; exit 1; }
if go test -mod=mod -vet=off -count=1 ./... > /tmp/confirm_suite.log 2>&1; then suite=pass; else suite=FAIL; fi
cp "$sd/demo_test.go" ./zz_seed_demo_test.go
if go test -mod=mod -vet=off -count=1 -run "^($pat)\$" . > /tmp/confirm_with.log 2>&1; then with=pass; else with=fail; fi
git apply -R "$sd/patch.diff"
if go test -mod=mod -vet=off -count=1 -run "^($pat)\$" . > /tmp/confirm_without.log 2>&1; then without=pass; else without=FAIL; fi
rm -f zz_seed_demo_test.go; git checkout -q -- . ; git clean -fdq
echo "suite_with_change=$suite demo_with_change=$with demo_without_change=$without"
if [ "$suite" = pass ] && [ "$with" = fail ] && [ "$without" = pass ]; then
  mkdir -p "$out"; cp "$sd/patch.diff" "$sd/demo_test.go" "$out/"; cp "$sd/notes.md" "$out/notes.md"
  echo CONFIRMED
else
  echo NOT-CONFIRMED; tail -5 /tmp/confirm_suite.log /tmp/confirm_with.log /tmp/confirm_without.log
fi
