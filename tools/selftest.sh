#!/bin/bash
# Must-fail corpus: every seeded change in /verif/seeded/<id>/ is applied to a
# scratch worktree of /repo (never to /repo itself), the quick check of its
# property is run against that worktree, and a VIOLATION line is expected.
# The worktree and the scratch verif directory are removed afterwards.
#
# usage: tools/selftest.sh [--update-meta] [seed ids ...]     (default: all seeds)
# output: one line per seed:  <id> <property> detected|MISSED  <first violated obligations>
set -u
export GOFLAGS=-mod=mod GOPROXY=off GOSUMDB=off GOTOOLCHAIN=local
update=0
if [ "${1:-}" = "--update-meta" ]; then update=1; shift; fi
seeds=("$@")
if [ ${#seeds[@]} -eq 0 ]; then seeds=($(ls /verif/seeded)); fi
claimed=$(jq -r '.checks[].property_id' /verif/MANIFEST.json | tr '\n' ' ')
wt=$(mktemp -d /tmp/tgvc_selftest_wt.XXXXXX); rmdir "$wt"
sv=$(mktemp -d /tmp/tgvc_selftest_verif.XXXXXX)
ln -s /verif/spec "$sv/spec"; cp /verif/known_findings.json "$sv/"
mkdir -p /verif/work/memo "$sv/work"; ln -s /verif/work/memo "$sv/work/memo"
git -C /repo worktree add -q --detach "$wt" HEAD || exit 2
cleanup() { git -C /repo worktree remove --force "$wt" 2>/dev/null; rm -rf "$sv" "$wt"; }
trap cleanup EXIT
for s in "${seeds[@]}"; do
  d=/verif/seeded/$s
  [ -f "$d/patch.diff" ] || { echo "$s ? no patch"; continue; }
  prop=$(jq -r .property "$d/meta.json")
  git -C "$wt" checkout -q -- . ; git -C "$wt" clean -qfd
  # uncommitted contract edits of /repo are part of the tree under test
  (cd /repo && git diff HEAD) | git -C "$wt" apply 2>/dev/null
  if ! git -C "$wt" apply "$d/patch.diff" 2>/dev/null; then echo "$s $prop patch-does-not-apply"; continue; fi
  if ! echo " $claimed " | grep -q " $prop "; then
    echo "$s $prop MISSED (property not claimed)"
    [ $update = 1 ] && jq '.detected_by = null | .detection_note = "property not claimed (see DESIGN.md 8.3)"' "$d/meta.json" > "$d/meta.json.tmp" && mv "$d/meta.json.tmp" "$d/meta.json"
    continue
  fi
  out=$(/verif/bin/tgvc check --repo "$wt" --verif "$sv" --property "$prop" --tier quick 2>&1)
  viol=$(echo "$out" | grep "^VIOLATION" | sed 's/.*obligation=//' | sed "s#$sv#/verif#g")
  n=$(echo "$viol" | grep -c . )
  if [ "$n" -gt 0 ]; then
    first=$(echo "$viol" | head -3 | sed 's/ no-failing-input-found/ (no input)/' | tr '\n' ';')
    replayed=$(echo "$viol" | grep -vc "no-failing-input-found")
    echo "$s $prop detected n=$n replayed=$replayed $first"
    if [ $update = 1 ]; then
      jq --arg c "tgvc check --property $prop --tier quick" --arg o "$(echo "$viol" | head -5)" --argjson r "$replayed" \
        '.detected_by = {check: $c, violated_obligations: ($o | split("\n")), replayed_on_real_code: $r} | del(.detection_note)' "$d/meta.json" > "$d/meta.json.tmp" && mv "$d/meta.json.tmp" "$d/meta.json"
    fi
  else
    echo "$s $prop MISSED $(echo "$out" | tail -1)"
    [ $update = 1 ] && jq '.detected_by = null | .detection_note = "the claimed clauses do not cover this change (see DESIGN.md 8.5)"' "$d/meta.json" > "$d/meta.json.tmp" && mv "$d/meta.json.tmp" "$d/meta.json"
  fi
done
