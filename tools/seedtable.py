#!/usr/bin/env python3
"""Prints the markdown table of DESIGN.md 8.5 from /verif/seeded/*/meta.json
(filled by tools/selftest.sh --update-meta) and the first line of each notes.md."""
import json, glob, os, re
rows = []
for d in sorted(glob.glob('/verif/seeded/*')):
    m = json.load(open(os.path.join(d, 'meta.json')))
    sid = os.path.basename(d)
    title = ''
    try:
        for l in open(os.path.join(d, 'notes.md')):
            if l.startswith('#'):
                title = re.sub(r'^#+\s*', '', l.strip())
                title = re.sub(r'^C\d+\s*(seed|/ change|change)?\s*\d*\s*[-–—:]\s*', '', title)
                break
    except FileNotFoundError:
        pass
    det = m.get('detected_by')
    if det:
        obs = [re.sub(r' no-failing-input-found$', '', o) for o in det.get('violated_obligations', []) if o]
        short = '; '.join('`' + o.replace('tengo.', '').replace('parser.', 'parser.') + '`' for o in obs[:2])
        if len(obs) > 2:
            short += ' …'
        rp = ' (replayed on the real code)' if det.get('replayed_on_real_code') else ''
        caught = 'yes — ' + short + rp
    else:
        caught = 'no — ' + m.get('detection_note', 'not covered')
    rows.append((sid, m['property'], title, caught))
print('| seed | property | change | caught by the property\'s quick check? |')
print('|---|---|---|---|')
for r in rows:
    print('| %s | %s | %s | %s |' % r)
n = sum(1 for r in rows if r[3].startswith('yes'))
print()
print('%d of %d seeded changes are caught.' % (n, len(rows)))
