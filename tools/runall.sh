#!/bin/bash
# runs every claimed check (quick tier) and prints one summary line each
cd /verif
for p in $(jq -r '.checks[].property_id' MANIFEST.json); do
  /verif/bin/tgvc check --property $p --tier ${1:-quick} > /tmp/runall_$p.log 2>&1; rc=$?
  echo "rc=$rc $(tail -1 /tmp/runall_$p.log)"
  grep -h "^VIOLATION\|^BROKEN" /tmp/runall_$p.log | head -5
done
