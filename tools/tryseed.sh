#!/bin/bash
# usage: tryseed.sh <patch.diff> <prop> [<prop>...]
# applies a seeded change to /repo, runs the quick checks, and reverses it (never uses checkout/stash).
set -u
patch=$1; shift
cd /repo || exit 2
if [ -n "$(git status --porcelain)" ]; then echo "refusing: /repo has uncommitted changes"; exit 2; fi
git apply "$patch" || { echo "patch does not apply"; exit 2; }
for p in "$@"; do /verif/bin/tgvc check --property "$p" 2>&1 | grep -v "^KNOWN-FINDING" | tail -6; done
git apply -R "$patch"
git status --porcelain
