#!/usr/bin/env python3
"""Regenerates /verif/MANIFEST.json from the table below (kept in one place so
the manifest stays valid and in sync with DESIGN.md)."""
import json, subprocess, sys

PROPS = [json.loads(l)["id"] for l in open("/verif/properties.jsonl")]

# property -> (claimed?, level text, level note, technique, design ref)  or  reason for not_applicable
CLAIMED = {
 "C10": dict(
   text="Deductive proof, for all inputs, that every comparison / equality / truthiness arm of the real value types equals one spec function written from the statement and the docs tables (spec/10_values.smt2); every implementation of Object.BinaryOp/Equals/IsFalsy in /repo is proved to refine the interface-level contract. The laws themselves are lemmas over that spec.",
   note="Assumed: go/ssa translation, tgvc encoder, SMT solvers; package time modelled as abstract instants; strings as an uninterpreted ordered sort; container equality/copy clauses not yet covered (see evidence not_decided).",
   technique="contract-based deductive verification (home-made VC generator over go/ssa, z3/cvc5)", ref="DESIGN.md §4 C10"),
}
NA = {}

def main():
    hooks = subprocess.run(["git","-C","/repo","log","--format=%H %s"],capture_output=True,text=True).stdout.strip().splitlines()
    hook_commits=[l.split()[0] for l in hooks if l.split(" ",1)[1].startswith("verif:")]
    m = {
     "version": 1,
     "setup_cmd": "cd /verif/engine && GOFLAGS=-mod=vendor GOPROXY=off GOSUMDB=off GOTOOLCHAIN=local go build -o /verif/bin/tgvc .",
     "hooks": {
       "guard": "verif",
       "enable": "go/packages load with -tags=verif: the hook files */verif_contracts.go are comment-only (//@ contract blocks) and are compiled only with the tag",
       "baseline_off_cmd": "cd /repo && go test -mod=mod -json -vet=off -count=1 -timeout 25m ./...",
       "source_commits": hook_commits,
       "add_only": True,
     },
     "engines": [{"name":"tgvc","path":"/verif/engine","serves_properties":sorted(CLAIMED),
        "kind_free_text":"home-made deductive verifier: go/ssa -> verification conditions (64-bit bit-vector ints, SMT floating point, Loc-datatype type-partitioned heap, exact append/copy model, contracts in //@ comment blocks of /repo/**/verif_contracts.go, spec functions in /verif/spec/*.smt2) discharged by z3 5.1.0, z3 4.8.12, cvc5 1.0.3"}],
     "checks": [],
     "not_applicable": [],
     "notes": "All checks: /verif/bin/tgvc check --property <id> --tier quick|thorough. Exit 0 = every obligation discharged (KNOWN-FINDING lines for entries of known_findings.json), exit 1 = VIOLATION lines, exit 2 = the check itself is broken (load error, contract error, vacuous precondition).",
    }
    for p in PROPS:
        if p in CLAIMED:
            c = CLAIMED[p]
            m["checks"].append({
              "property_id": p,
              "quick_cmd": f"/verif/bin/tgvc check --property {p} --tier quick",
              "thorough_cmd": f"/verif/bin/tgvc check --property {p} --tier thorough",
              "evidence_file": f"/verif/evidence/{p}.json",
              "replay_cmd_template": "/verif/bin/tgvc replay {path}",
              "engine": "tgvc",
              "level_claimed": {"category":"proof","text":c["text"],"design_ref":c["ref"]},
              "level_note": c["note"],
              "technique": c["technique"],
            })
        else:
            m["not_applicable"].append({"property_id": p, "reason": NA.get(p, "check not built yet (engine under construction); planned clauses in DESIGN.md §4")})
    json.dump(m, open("/verif/MANIFEST.json","w"), indent=1)
    print("wrote MANIFEST.json:", len(m["checks"]), "checks,", len(m["not_applicable"]), "not applicable")

main()
