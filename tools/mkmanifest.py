#!/usr/bin/env python3
"""Regenerates /verif/MANIFEST.json from the table below (kept in one place so
the manifest stays valid and in sync with DESIGN.md)."""
import json, subprocess, sys

PROPS = [json.loads(l)["id"] for l in open("/verif/properties.jsonl")]

# property -> (claimed?, level text, level note, technique, design ref)  or  reason for not_applicable
TECH = "contract-based deductive verification of the real code: VCs generated from go/ssa by the home-made engine tgvc, discharged by z3/cvc5"
CLAIMED = {
 "C01": dict(
   text="Per-operation clauses only (no whole-language simulation proof): deductive proof for all inputs that every arithmetic / comparison arm of Int, Float, Char, String, Time BinaryOp equals the spec written from docs/operators.md, that unsupported pairs yield ErrInvalidOperator, that + on arrays/bytes returns the specified elements in storage owned by the result, and that append() follows its contract; every implementation refines the interface-level contract of Object.BinaryOp. Every builtin function (len, range, format, copy, the conversions, bytes, time, append, delete, splice, type predicates) is proved free of index, slice, nil, type-assertion and allocation-size failures for all argument lists (two genuine panics were found this way and repaired: splice with a huge count, bytes with a negative size).",
   note="Not decided: control flow, scoping, calls, parser, composition of operations (see DESIGN.md). Assumed: go/ssa, tgvc encoder, solvers; integer division by zero is a panic site (not an error) and is listed in the evidence. Termination of range() with a step close to the integer limit is not decided (partial correctness).",
   ref="DESIGN.md §4 C01"),
 "C02": dict(
   text="Encoding: MakeInstruction / ReadOperands against the operand-width table parser.OpcodeOperands (read from source on every run). VM side: step contracts on the real dispatch loop (*VM).run prove for every opcode arm and all machine states that the VM consumes exactly the operand bytes the table declares, moves the operand stack by the specified amount, leaves frames consistent on call, and never continues on an unknown opcode. Compile side: emit / changeOperand contracts, and for Compile, compileAssign and compileLogical the frame (bytes change only inside the current scope's instruction storage or fresh memory), the preservation of already emitted bytes and of outer scopes, so that every jump placeholder that is patched still holds the opcode that was emitted.",
   note="Stack balance per function and jump-target validity are not decided; optimizeFunc, compileModule and the for / for-in statements have assumed contracts (listed in the evidence). Clauses tagged {C02!} (prefix / array / below families) are obligations of the thorough tier and assumptions of the quick tier. Bounds checks of run are path assumptions (mode panics-allowed).",
   ref="DESIGN.md §4 C02"),
 "C06": dict(
   text="String/bytes limits as a write-site inventory: every SSA store to String.Value / Bytes.Value in package tengo is an obligation len <= MaxStringLen / MaxBytesLen (field invariant assumed at loads, proved at stores); allocation accounting, the tracked-opcode table, the limit error and the frame limit are step contracts on (*VM).run.",
   note="Format (fmt port, uses recover) has an assumed limit clause; Compiler.Compile's literal arms are inventoried but not verified; map keys are a listed known finding. Operand-stack overflow relies on recover (C05) and is not decided.",
   ref="DESIGN.md §4 C06"),
 "C08": dict(
   text="Frames only (no interleaving model): every method of every value type in /repo that a run can invoke on shared constants (TypeName, String, BinaryOp, IsFalsy, Equals, Copy, CanIterate, CanCall) is proved to write no pre-existing memory; writes of the String rune cache are inventoried (two known findings).",
   note="Data-race freedom over all schedules is a meta-argument on top of these frames and is not decided; Compiled.Clone / lock discipline not covered yet.",
   ref="DESIGN.md §4 C08"),
 "C09": dict(
   text="Frame and freshness obligations on the real code: +, copy, append on immutable arrays/maps return storage disjoint from the operand and write nothing that existed before; slicing an immutable array in the VM returns fresh storage (step contract); Copy of every container copies every mutable element.",
   note="freeze / export emission / builtin module tables not covered yet.",
   ref="DESIGN.md §4 C09"),
 "C10": dict(
   text="Deductive proof, for all inputs, that every comparison / equality / truthiness arm of the real value types equals one spec function written from the statement and the docs tables (spec/10_values.smt2); every implementation of Object.BinaryOp/Equals/IsFalsy/Copy in /repo is proved to refine the interface-level contract; Copy contracts with loop invariants for all containers. The laws themselves are lemmas over that spec (spec/lemmas/C10_*).",
   note="Assumed: package time modelled as abstract instants; strings as an uninterpreted ordered sort; container Equals and the conversion builtins not covered yet.",
   ref="DESIGN.md §4 C10"),
 "C11": dict(
   text="VM side: step contracts proving that Get/Set/Define and selector assignment of the global, local and free-variable families read and write one abstract cell (through the *ObjectPtr box when present, preserving box identity), for all machine states; the selector-assignment opcodes hand indexAssign the cell's current value and the value below the selectors. Compiler side: a closure captures each free symbol with the opcode of its scope, and a local that is captured before its first assignment is first reset by NULL; DEFL (postconditions on the emitted bytes of Compile's closure loop).",
   note="The compiler's choice of family per scope for ordinary identifiers and the program-transformation equivalences are not decided.",
   ref="DESIGN.md §4 C11"),
 "C14": dict(
   text="Error identity: step contracts proving that every error exit of the dispatch loop stores exactly the error a callee returned (BinaryOp, IndexGet, native Call) unless it is one of the sentinels it rewrites, that the engine raises ErrObjectAllocLimit / ErrStackOverflow only in their situations, that a continuing iteration never carries an error; (*VM).Run is proved to return an error whose unwrap chain contains that error (fmt.Errorf's %w modelled from the format literal, loop invariant over the trace loop). (*CompiledFunction).SourcePos returns the position recorded for ip, or for ip-1 when ip has none (loop invariant: no recorded offset was skipped), and NoPos before the start.",
   note="Source positions (SourcePos arithmetic, source-map rebasing in optimizeFunc, statement attribution) are not covered. Run requires v.err == nil on entry: Run does not reset the field, so a VM that failed once must not be re-run (observation, outside the listed properties).",
   ref="DESIGN.md §4 C14"),
 "C16": dict(
   text="Step contracts on the OpCall arm: a call that keeps the frame count and restarts at ip -1 happens only when the next instruction is RET (or POP; RET), keeps curFrame and the instruction stream, moves the arguments into the parameter slots as a simultaneous update (loop invariant on the copy loop, for non-overlapping ranges) and never reports a stack overflow; a non-tail call pushes exactly one frame with the saved ip inside the call instruction.",
   note="Agreement with the equivalent loop, captured-parameter boxes across iterations and the compiler's emission of RET after calls are not covered.",
   ref="DESIGN.md §4 C16"),
 "C12": dict(
   text="De-duplication only: loop invariants on the real (*Bytecode).RemoveDuplicates prove, for all constant pools, that every old index is mapped to a valid new index whose constant has the same payload - the same object for functions and un-named maps, the same non-empty module name for module maps, the same value for ints, strings and chars - and that every per-type table points at a constant of that kind with that key. The decode fix-up fixDecodedObject returns the engine's sentinels for decoded booleans and undefined and keeps every other constant as decoded.",
   note="updateConstIndexes (instruction rewriting) has an assumed frame; inferModuleName is abstracted as a pure function of the map (its frame is proved); float payloads are compared by kind only; gob encode/decode fidelity (external library) and fixDecodedObject are not decided.",
   ref="DESIGN.md §4 C12"),
 "C13": dict(
   text="Per-function clauses on the real compiler: an export statement in a module compiler always emits IMMUT; RET 1, a forked module compiler is a fresh compiler with the given symbol table, the same module getter and file-import setting, symbol-table Fork/Parent link tables as specified, fields that link compilers and tables are write-once; the compiled-module cache is written in this compiler and handed to the parent compiler's store, and a lookup is answered by the parent when there is one (so store and lookup meet at the outermost compiler). checkCyclicImports rejects a module path equal to this compiler's, hands the question to the parent compiler otherwise, and accepts at the outermost compiler.",
   note="The induction along the parent chain is a meta-argument over the per-call clauses (call records are ghost state). compileModule (runs the parser, uses recover) and the loop statements have assumed contracts; import-graph termination and cycle exactness are not decided.",
   ref="DESIGN.md §4 C13"),
 "C15": dict(
   text="Data structure against an abstract view, proved per API function on the real code: FromInterface / ToInterface against the docs/interoperability.md table for every scalar, bytes, time and []Object; Compiled.Set/Get/IsDefined/GetAll read and write exactly globals[globalIndexes[name]] (undeclared names rejected / read as undefined, an unset slot reads as undefined and never as Go nil, every other global unchanged); Script.Add/Remove update exactly one entry of the variable table; the typed accessors of Variable equal the conversion contracts; Copy of every container (what Clone relies on) shares no mutable storage with the original. Compiled.Clone gives the clone global slots of its own, a fresh copy for every mutable global, and leaves unset slots unset.",
   note="The induction over API call sequences is a meta-argument over these per-call contracts; Script.Compile / Run / Clone themselves and nested map / slice conversion clauses are not covered; mutex operations are no-ops in the model.",
   ref="DESIGN.md §4 C15"),
 "C20": dict(
   text="Precedence clause only: token.Token.Precedence is proved equal, for every token value, to the table in docs/tutorial.md (spec/30_syntax.smt2), with the five-level structure as a lemma.",
   note="Semicolon insertion, precedence climbing in the parser, literal values and the print/parse round trip are not covered.",
   ref="DESIGN.md §4 C20"),
 "C19": dict(
   text="Adapter family only: each of the 44 adapter closures of stdlib/func_typedefs.go is proved, for all argument lists, to reject a wrong argument count with ErrWrongNumArguments, to report the first non-convertible argument with its ordinal name, and otherwise to return exactly wrap(fn(arguments in order)) where the wrapped Go function fn is an uninterpreted pure function (so a transposed argument or a swapped coercion cannot satisfy the clause); string results honour MaxStringLen.",
   note="Module tables (which Go function each name is bound to), hand-written wrappers (text.replace, pad, join, regexp, times), enum and the behaviour of the Go functions themselves are not covered; arguments of the natural type only (coercions through ToString/ToInt/... are covered by the C10 conversion contracts).",
   ref="DESIGN.md §4 C19"),
 "C04": dict(
   text="Scanner only: every function of parser/scanner.go (NewScanner, Scan, next, peek, error, skipWhitespace, scanIdentifier, scanDigits, scanNumber, scanEscape, scanRune, scanString, scanRawString, scanComment, findLineEnd, StripCR, switch2/3/4) is proved free of index, slice, nil and explicit-panic failures for all sources under one representation invariant (the current character occupies src[offset:readOffset], the file's extent equals the source), and Scan is proved to make progress: at a character, a call moves the offset forward or clears the pending-semicolon flag without moving back - the measure that bounds the parser's loops.",
   note="Parser and compiler totality (no panic for arbitrary token streams / syntax trees, error-count bailout, recursion depth) are not covered: Compile's safety obligations need a syntax-tree well-formedness invariant that is not written yet. Termination of the scanner's inner loops follows from next()'s progress clause by a meta-argument, not by a checked decreases clause. SourceFile.Position/AddLine and the error handler callback are frame-only (unverified bodies). Two entry facts are assumed, not proved (listed in the evidence): findLineEnd's `the byte before the offset is /` and scanComment's `the current character is / or *` after findLineEnd - the representation invariant does not yet relate s.ch to the source bytes (DESIGN.md 8.9, which also records a vacuity hole of the engine found and fixed: private memory was kept across callees that receive it).",
   ref="DESIGN.md §4 C04, 8.9"),
 "C03": dict(
   text="Three clauses of the dead-code pass, each proved on the real code for all inputs: the closure of pass 1 marks the target of every jump kind (JMP, JMPF, ANDJMP, ORJMP) as a jump destination; the closure of pass 3 re-targets every jump kind whose target is in the position map to the mapped offset (all four operand bytes); the source-map loop of pass 4 moves the entry of every kept instruction to the instruction's new offset.",
   note="optimizeFunc as a whole (which instructions are removed, that removed code is unreachable, the appended return, agreement of the three passes through iterateInstructions) is NOT verified: its contract stays an assumption and only the clauses attached to its loop and to its closures are proved, under the closures' stated preconditions (jump instructions lie inside the new stream with one operand). Behavioural identity of the optimised program is not decided.",
   ref="DESIGN.md 8.3"),
}
for v in CLAIMED.values():
    v["technique"] = TECH
NA = {
 "C05": "not applicable to this technique: containment of panics by a deferred recover inside a goroutine, handed over a channel under select, is outside any function-contract verifier available here (DESIGN.md §4 C05)",
 "C07": "not applicable to this technique: quantifies over schedules, real-time delay and goroutine leaks; no thread model in contract-based deductive verification (DESIGN.md §4 C07)",
 "C17": "not applicable to this technique: the oracle is the executable Go fmt package; no contract within reach states agreement with it other than re-implementing fmt as the spec (DESIGN.md §4 C17)",
 "C18": "not applicable to this technique: the oracle is encoding/json; validity is defined by a copied scanner state machine (DESIGN.md §4 C18)",
}


def main():
    hooks = subprocess.run(["git","-C","/repo","log","--format=%H %s"],capture_output=True,text=True).stdout.strip().splitlines()
    hook_commits=[l.split()[0] for l in hooks if l.split(" ",1)[1].startswith("verif:")]
    m = {
     "version": 1,
     "setup_cmd": "cd /verif/engine && GOFLAGS=-mod=vendor GOPROXY=off GOSUMDB=off GOTOOLCHAIN=local go build -o /verif/bin/tgvc .",
     "hooks": {
       "guard": "verif",
       "enable": "go/packages load with -tags=verif: the hook files */verif_contracts.go are comment-only (//@ contract blocks) and are compiled only with the tag",
       "baseline_off_cmd": "cd /repo && go test -mod=mod -json -vet=off -count=1 -timeout 25m ./...",
       "source_commits": hook_commits,
       "add_only": True,
     },
     "engines": [{"name":"tgvc","path":"/verif/engine","serves_properties":sorted(CLAIMED),
        "kind_free_text":"home-made deductive verifier: go/ssa -> verification conditions (64-bit bit-vector ints, SMT floating point, Loc-datatype type-partitioned heap, exact append/copy model, contracts in //@ comment blocks of /repo/**/verif_contracts.go, spec functions in /verif/spec/*.smt2) discharged by z3 5.1.0, z3 4.8.12, cvc5 1.0.3"}],
     "checks": [],
     "not_applicable": [],
     "notes": "All checks: /verif/bin/tgvc check --property <id> --tier quick|thorough. Exit 0 = every obligation discharged (KNOWN-FINDING lines for entries of known_findings.json), exit 1 = VIOLATION lines, exit 2 = the check itself is broken (load error, contract error, vacuous precondition).",
    }
    for p in PROPS:
        if p in CLAIMED:
            c = CLAIMED[p]
            m["checks"].append({
              "property_id": p,
              "quick_cmd": f"/verif/bin/tgvc check --property {p} --tier quick",
              "thorough_cmd": f"/verif/bin/tgvc check --property {p} --tier thorough",
              "evidence_file": f"/verif/evidence/{p}.json",
              "replay_cmd_template": "/verif/bin/tgvc replay {path}",
              "engine": "tgvc",
              "level_claimed": {"category":"proof","text":c["text"],"design_ref":c["ref"]},
              "level_note": c["note"],
              "technique": c["technique"],
            })
        else:
            m["not_applicable"].append({"property_id": p, "reason": NA.get(p, "check not built; see DESIGN.md 8.3")})
    json.dump(m, open("/verif/MANIFEST.json","w"), indent=1)
    print("wrote MANIFEST.json:", len(m["checks"]), "checks,", len(m["not_applicable"]), "not applicable")

main()
